#!/venv/bin/python
"""Systematic operator mutants of the anchored source files, to measure (and find gaps in) the detection power of the checks.

For every selected mutant: write it into a private scratch worktree of /repo's HEAD (outside /repo and /verif), run the
repository test-suite; if the suite still passes ("survivor"), run the quick tier of the checks mapped to the mutated file
(VERIF_REPO / VERIF_OUT) and record whether any of them reports a violation.  Nothing is applied to /repo.

usage: tools_mutate.py [-j 4] [--per-file 25] [--offset 0] [--files a.py,b.py] [--out /tmp/mutants.jsonl]
Mutation operators (AST based, one node per mutant): comparison boundary (< <=, > >=, == !=), + <-> -, * <-> /,
small integer constant +1, removal of .conjugate()/.conj(), removal of unary minus.  The subset is chosen deterministically
(every k-th candidate of a file), never at random."""
import ast, json, os, shutil, subprocess, sys, tempfile, copy
from concurrent.futures import ThreadPoolExecutor

VERIF = os.path.dirname(os.path.abspath(__file__))
FILE_CHECKS = {   # first the checks anchored in the file, then the checks that reach it through callers
    'periodogram.py': ['C01', 'C08', 'C05', 'C07', 'C02', 'C06'], 'psd.py': ['C07', 'C06', 'C02', 'C08', 'C05', 'C01'], 'correlog.py': ['C01', 'C05', 'C02', 'C08'],
    'correlation.py': ['C09', 'C12', 'C01', 'C03', 'C04', 'C15', 'C05'], 'burg.py': ['C13', 'C16', 'C03', 'C04', 'C02', 'C05', 'C08'],
    'yulewalker.py': ['C12', 'C02', 'C04', 'C03'], 'covar.py': ['C14', 'C15', 'C03', 'C04', 'C02'], 'modcovar.py': ['C14', 'C03', 'C02', 'C04'],
    'arma.py': ['C15', 'C08', 'C05', 'C02', 'C04', 'C03', 'C06'], 'minvar.py': ['C16', 'C02', 'C05', 'C08'],
    'eigenfre.py': ['C17', 'C02', 'C05', 'C03'], 'mtm.py': ['C19', 'C18', 'C02', 'C05', 'C08'], 'tools.py': ['C06', 'C02', 'C07'],
    'levinson.py': ['C10', 'C11', 'C12', 'C04', 'C03'], 'toeplitz.py': ['C10'], 'cholesky.py': ['C10'], 'linear_prediction.py': ['C11'], 'lpc.py': ['C12'],
    'linalg.py': ['C09', 'C14', 'C17'], 'window.py': ['C20', 'C01', 'C08', 'C05'], 'criteria.py': ['C13', 'C03', 'C17'],
}
SKIP_FUNCS = ('plot', '__str__', '_str_title', 'info', 'window_visu', 'compute_response', 'create_figure', 'spectrum_set_level')


class Collector(ast.NodeVisitor):
    def __init__(self):
        self.cands = []
        self.stack = []

    def visit_FunctionDef(self, node):
        if any(s in node.name for s in SKIP_FUNCS):
            return
        self.stack.append(node.name)
        self.generic_visit(node)
        self.stack.pop()

    def generic_visit(self, node):
        fn = '.'.join(self.stack)
        if self.stack:
            if isinstance(node, ast.Compare) and len(node.ops) == 1 and isinstance(node.ops[0], (ast.Lt, ast.LtE, ast.Gt, ast.GtE, ast.Eq, ast.NotEq)):
                self.cands.append((node, 'cmp', fn))
            elif isinstance(node, ast.BinOp) and isinstance(node.op, (ast.Add, ast.Sub, ast.Mult, ast.Div)):
                if not (isinstance(node.left, ast.Constant) and isinstance(node.left.value, str)):
                    self.cands.append((node, 'binop', fn))
            elif isinstance(node, ast.Constant) and isinstance(node.value, int) and not isinstance(node.value, bool) and 0 <= node.value <= 4:
                self.cands.append((node, 'const', fn))
            elif isinstance(node, ast.Call) and isinstance(node.func, ast.Attribute) and node.func.attr in ('conjugate', 'conj') and not node.args:
                self.cands.append((node, 'conj', fn))
            elif isinstance(node, ast.UnaryOp) and isinstance(node.op, ast.USub):
                self.cands.append((node, 'usub', fn))
        if isinstance(node, ast.Expr) and isinstance(getattr(node, 'value', None), ast.Constant) and isinstance(node.value.value, str):
            return      # docstring
        if isinstance(node, ast.Call) and isinstance(node.func, ast.Attribute) and isinstance(node.func.value, ast.Name) and node.func.value.id == 'logging':
            return
        super().generic_visit(node)


def mutate(tree, index):
    """Return (mutated source, description) for candidate number `index` of a fresh parse."""
    c = Collector()
    c.visit(tree)
    node, kind, fn = c.cands[index]
    line = getattr(node, 'lineno', 0)
    if kind == 'cmp':
        swap = {ast.Lt: ast.LtE, ast.LtE: ast.Lt, ast.Gt: ast.GtE, ast.GtE: ast.Gt, ast.Eq: ast.NotEq, ast.NotEq: ast.Eq}
        old = type(node.ops[0]).__name__
        node.ops[0] = swap[type(node.ops[0])]()
        desc = 'compare %s -> %s' % (old, type(node.ops[0]).__name__)
    elif kind == 'binop':
        swap = {ast.Add: ast.Sub, ast.Sub: ast.Add, ast.Mult: ast.Div, ast.Div: ast.Mult}
        old = type(node.op).__name__
        node.op = swap[type(node.op)]()
        desc = 'binop %s -> %s' % (old, type(node.op).__name__)
    elif kind == 'const':
        desc = 'constant %d -> %d' % (node.value, node.value + 1)
        node.value = node.value + 1
    elif kind == 'conj':
        desc = 'drop .%s()' % node.func.attr
        new = node.func.value
        for parent in ast.walk(tree):
            for field, val in ast.iter_fields(parent):
                if val is node:
                    setattr(parent, field, new)
                elif isinstance(val, list):
                    for i, v in enumerate(val):
                        if v is node:
                            val[i] = new
    else:
        desc = 'drop unary minus'
        new = node.operand
        for parent in ast.walk(tree):
            for field, val in ast.iter_fields(parent):
                if val is node:
                    setattr(parent, field, new)
                elif isinstance(val, list):
                    for i, v in enumerate(val):
                        if v is node:
                            val[i] = new
    return ast.unparse(tree), '%s in %s (line %d)' % (desc, fn, line)


def sh(cmd, cwd=None, env=None, timeout=1800):
    try:
        p = subprocess.run(cmd, shell=True, cwd=cwd, env=env, capture_output=True, text=True, timeout=timeout)
        return p.returncode, p.stdout + p.stderr
    except subprocess.TimeoutExpired:
        return 124, 'timeout'


def run_one(job):
    fname, index, wt = job
    path = os.path.join(wt, 'src', 'spectrum', fname)
    orig = open(path).read()
    res = {'file': fname, 'index': index}
    try:
        src, desc = mutate(ast.parse(orig), index)
        res['mutant'] = desc
        open(path, 'w').write(src)
        env = dict(os.environ, PYTHONPATH=os.path.join(wt, 'src'), MPLBACKEND='Agg')
        rc, o = sh('/venv/bin/python -m pytest -q -x -p no:cacheprovider --timeout=300 2>&1 | tail -2', cwd=wt, env=env, timeout=900)
        res['tests_pass'] = '165 passed' in o
        if res['tests_pass']:
            out = tempfile.mkdtemp(prefix='verif_mut_out_')
            cenv = dict(os.environ, VERIF_REPO=wt, VERIF_OUT=out, VERIF_NPROC='4')
            res['checks'] = {}
            allc = ['C%02d' % i for i in range(1, 21)]
            order = FILE_CHECKS[fname] + ([c for c in allc if c not in FILE_CHECKS[fname]] if os.environ.get('MUTATE_ALL_CHECKS') else [])
            for cid in order:
                rc, o = sh('./check %s --tier quick' % cid, cwd=VERIF, env=cenv, timeout=1800)
                res['checks'][cid] = rc
                if rc == 1:
                    res['first_key'] = next((l.strip()[:160] for l in o.splitlines() if l.startswith('  [')), '')
                    break
            shutil.rmtree(out, ignore_errors=True)
            res['caught'] = any(v == 1 for v in res['checks'].values())
    except Exception as e:
        res['error'] = repr(e)[:200]
    finally:
        open(path, 'w').write(orig)
    return res


def main():
    args = sys.argv[1:]
    j, per, out, files, offset = 4, 25, '/tmp/mutants.jsonl', None, 0
    while args:
        a = args.pop(0)
        if a == '-j':
            j = int(args.pop(0))
        elif a == '--per-file':
            per = int(args.pop(0))
        elif a == '--out':
            out = args.pop(0)
        elif a == '--files':
            files = args.pop(0).split(',')
        elif a == '--offset':
            offset = int(args.pop(0))      # 0 <= offset < step: a second stage takes the candidates the first one skipped
    tmp = tempfile.mkdtemp(prefix='verif_mut_')
    wts = []
    for i in range(j):
        wt = os.path.join(tmp, 'wt%d' % i)
        sh('git -C /repo worktree add -q --detach %s HEAD' % wt)
        for so in os.listdir('/repo/src/spectrum'):
            if so.endswith('.so'):
                shutil.copy(os.path.join('/repo/src/spectrum', so), os.path.join(wt, 'src', 'spectrum', so))
        wts.append(wt)
    jobs_by_wt = [[] for _ in range(j)]
    n = 0
    recheck = os.environ.get('MUTATE_RECHECK')
    if recheck:
        os.environ['MUTATE_ALL_CHECKS'] = '1'
        for l in open(recheck):
            r = json.loads(l)
            if r.get('tests_pass') and not r.get('caught'):
                jobs_by_wt[n % j].append((r['file'], r['index'], wts[n % j]))
                n += 1
        files = []
    for fname in sorted(files if files is not None else FILE_CHECKS):
        src = open(os.path.join('/repo/src/spectrum', fname)).read()
        c = Collector()
        c.visit(ast.parse(src))
        total = len(c.cands)
        step = max(1, total // per)
        if offset and step == 1:
            continue        # the first stage already took every candidate of this file
        for index in range(min(offset, step - 1), total, step):
            jobs_by_wt[n % j].append((fname, index, wts[n % j]))
            n += 1
    print('%d mutants selected' % n)

    def worker(jobs):
        outl = []
        for job in jobs:
            r = run_one(job)
            with open(out, 'a') as f:
                f.write(json.dumps(r) + '\n')
            outl.append(r)
        return outl
    open(out, 'w').close()
    with ThreadPoolExecutor(j) as ex:
        allr = [r for rs in ex.map(worker, jobs_by_wt) for r in rs]
    for wt in wts:
        sh('git -C /repo worktree remove --force %s' % wt)
    shutil.rmtree(tmp, ignore_errors=True)
    surv = [r for r in allr if r.get('tests_pass')]
    print('mutants=%d killed_by_tests=%d survivors=%d caught_by_checks=%d missed=%d errors=%d' % (
        len(allr), len([r for r in allr if r.get('tests_pass') is False]), len(surv), len([r for r in surv if r.get('caught')]),
        len([r for r in surv if not r.get('caught')]), len([r for r in allr if 'error' in r])))


if __name__ == '__main__':
    main()
