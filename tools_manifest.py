#!/venv/bin/python
"""Regenerates MANIFEST.json from the list of built checks (run by hand, result committed)."""
import json, os, sys
HERE = os.path.dirname(os.path.abspath(__file__))
sys.path.insert(0, HERE)
props = [json.loads(l) for l in open(os.path.join(HERE, 'properties.jsonl'))]
from mc import registry
checks, na = [], []
for p in props:
    pid = p['id']
    r = registry.CHECKS.get(pid)
    if r is None:
        na.append({'property_id': pid, 'reason': registry.NOT_BUILT.get(pid, 'check not built yet (work in progress; the technique applies, see DESIGN.md section 6)')})
        continue
    checks.append({
        'property_id': pid,
        'quick_cmd': './check %s --tier quick' % pid,
        'thorough_cmd': './check %s --tier thorough' % pid,
        'evidence_file': '/verif/evidence/%s.json' % pid,
        'replay_cmd_template': './check %s --replay {path}' % pid,
        'engine': r['engine'],
        'level_claimed': {'category': 'model_checking', 'text': r['text'], 'design_ref': r['design_ref']},
        'level_note': r['note'],
        'technique': r['technique'],
    })
m = {
    'version': 1,
    'setup_cmd': './check --selftest',
    'hooks': {'guard': 'SPECTRUM_VERIF', 'enable': 'no source hooks are needed: checks import /repo/src directly (PYTHONPATH) and observe public return values and vars(obj); the C taper routine is recompiled from /repo/src/cpp/mydpss.c into a temporary directory per run',
              'baseline_off_cmd': 'cd /repo && /venv/bin/python -m pytest -ra -q -p no:cacheprovider --timeout=900 --continue-on-collection-errors',
              'source_commits': [], 'add_only': True},
    'engines': [
        {'name': 'EX', 'path': 'mc/core.py', 'serves_properties': [c['property_id'] for c in checks if c['engine'] == 'EX'],
         'kind_free_text': 'hand-written exhaustive product/trie enumerator over finite input x configuration alphabets, run on the real code in 16 long-lived workers, every point compared with a boring reference model'},
        {'name': 'BFS', 'path': 'mc/bfs.py', 'serves_properties': [c['property_id'] for c in checks if c['engine'] == 'BFS'],
         'kind_free_text': 'hand-written explicit-state breadth-first explorer over operation histories of real objects with full-vars() canonical state hashing'},
    ],
    'checks': checks,
    'not_applicable': na,
    'notes': 'All checks: exit 0 held / exit 1 + VIOLATION line / exit 2 harness error. Known findings: /verif/known_findings.txt. See DESIGN.md.',
}
json.dump(m, open(os.path.join(HERE, 'MANIFEST.json'), 'w'), indent=1)
print('checks:', [c['property_id'] for c in checks], 'not claimed:', [n['property_id'] for n in na])
