#!/bin/sh
# Runs every registered quick check from a fresh process under several VERIF_SEED values; every run must exit 0 without a
# VIOLATION line and the measured coverage must be identical for every seed (the seed only rotates shard dispatch order).
cd "$(dirname "$0")"
out=${1:-/tmp/verif_silence}
mkdir -p "$out"
rc=0
for seed in 0 1 7 12345 987654321; do
  for c in C01 C02 C03 C04 C05 C06 C07 C08 C09 C10 C11 C12 C13 C14 C15 C16 C17 C18 C19 C20; do
    VERIF_SEED=$seed VERIF_OUT=$out/s$seed ./check $c --tier quick > $out/s$seed.$c.log 2>&1
    e=$?
    if [ $e -ne 0 ] || grep -q VIOLATION $out/s$seed.$c.log; then echo "NOT SILENT seed=$seed $c exit=$e"; rc=1; fi
  done
done
/venv/bin/python - "$out" <<'PY'
import json, sys, glob, os
out = sys.argv[1]
bad = 0
for c in ['C%02d' % i for i in range(1, 21)]:
    sig = set()
    for d in sorted(glob.glob(os.path.join(out, 's*', 'evidence', c + '.json'))):
        e = json.load(open(d))['coverage']
        sig.add((e['states'], e['transitions'], e['traces_validated_against_impl'], e['distinct_nontrivial'], json.dumps(e['clause_checks'], sort_keys=True)))
    if len(sig) != 1:
        print('NON-DETERMINISTIC', c, len(sig)); bad = 1
print('determinism across seeds:', 'ok' if not bad else 'FAILED')
sys.exit(bad)
PY
[ $? -ne 0 ] && rc=1
echo "silence run finished rc=$rc"
exit $rc
