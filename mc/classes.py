"""Uniform constructors for the 12 PSD estimator classes (shared by C02-C05, C08, C15)."""
import numpy as np

NAMES = ['Periodogram', 'pcorrelogram', 'pburg', 'pyule', 'pcovar', 'pmodcovar', 'parma', 'pma', 'pminvar',
         'pmusic', 'pev', 'MultiTapering']
AR_LIKE = ['pburg', 'pyule', 'pcovar', 'pmodcovar']          # single AR order
MODEL_SPECTRA = ['pburg', 'pyule', 'pcovar', 'pmodcovar', 'parma', 'pma']   # arma2psd based: scale with 1/sampling


def make(cls, x, NFFT=None, sampling=1.0, scale_by_freq=False, **o):
    """o: order (AR classes, pminvar), P,Q,lag (parma), Q,M (pma), lag,window (pcorrelogram), window (Periodogram),
    IP,NSIG (pmusic/pev), NW,k,method (MultiTapering)."""
    import spectrum
    kw = dict(NFFT=NFFT, sampling=sampling, scale_by_freq=scale_by_freq)
    if cls == 'Periodogram':
        return spectrum.Periodogram(x, window=o.get('window', 'hann'), **kw)
    if cls == 'pcorrelogram':
        return spectrum.pcorrelogram(x, lag=o['lag'], window=o.get('window', 'hamming'), **kw)       # other keys of o (e.g. 'structural') are check-side flags
    if cls == 'pburg' and o.get('criteria'):
        return spectrum.pburg(x, o['order'], criteria=o['criteria'], **kw)       # order = upper bound, the criterion selects
    if cls in AR_LIKE or cls == 'pminvar':
        return getattr(spectrum, cls)(x, o['order'], **kw)
    if cls == 'parma':
        return spectrum.parma(x, o['P'], o['Q'], o['lag'], **kw)
    if cls == 'pma':
        return spectrum.pma(x, o['Q'], o['M'], **kw)
    if cls in ('pmusic', 'pev'):
        return getattr(spectrum, cls)(x, o['IP'], NSIG=o.get('NSIG'), **kw)
    if cls == 'MultiTapering':
        return spectrum.MultiTapering(x, NW=o.get('NW', 2.5), k=o.get('k'), method=o.get('method', 'adapt'), **kw)
    raise KeyError(cls)


def min_nfft(cls, N, o):
    """Smallest admissible NFFT per the property statements."""
    if cls in ('Periodogram', 'MultiTapering'):
        return N
    if cls == 'pcorrelogram':
        return 2 * o['lag'] + 1
    if cls == 'pminvar':
        return 2 * o['order']
    if cls in AR_LIKE:
        return o['order'] + 1
    if cls == 'parma':
        return max(o['P'], o['Q']) + 1
    if cls == 'pma':
        return o['Q'] + 1
    if cls in ('pmusic', 'pev'):
        return o['IP'] + 1
    raise KeyError(cls)


def resolve_nfft(NFFT, N):
    if NFFT is None:
        return N
    if NFFT == 'nextpow2':
        p = 1
        while p < N:
            p *= 2
        return p
    return int(NFFT)


def psd_of(obj):
    return np.asarray(obj.psd)


def deviations(dims, d):
    """All points of the product of dims (dict name -> list, default first) that differ from the default
    point in at most d dimensions; simplest (fewest deviations) first."""
    import itertools
    names = list(dims)
    base = {n: dims[n][0] for n in names}
    yield dict(base)
    for nd in range(1, d + 1):
        for combo in itertools.combinations(names, nd):
            alts = [dims[n][1:] for n in combo]
            for vals in itertools.product(*alts):
                pt = dict(base)
                pt.update(dict(zip(combo, vals)))
                yield pt
