"""Triangulation of the reference models against unrelated third-party routines, and a few
self-checks of the machinery.  A failure here is a harness error (exit 2), never a VIOLATION."""
import sys
import numpy as np

TESTS = []


def test(f):
    TESTS.append(f)
    return f


@test
def dft_vs_numpy_fft():
    from .ref import dft
    from . import alphabet as A
    for N in range(1, 14):
        for NFFT in (N, N + 1, 2 * N + 1, 4 * N):
            x = A.weylc(N, 3)
            assert np.allclose(dft.dft(x, NFFT), np.fft.fft(x, NFFT), rtol=0, atol=1e-12)


@test
def core_close_and_digest():
    from .core import close, digest, relerr, jsonable, unjson
    assert close([1, 2, 3], [1, 2, 3 + 1e-12]) and not close([1, 2, 3], [1, 2, 3.001])
    assert not close([1, 2], [1, 2, 3]) and not close([1, np.nan], [1, 2])
    assert close([1, np.nan], [1, np.nan])
    assert digest(np.array([1., 2.])) == digest(np.array([1., 2. + 1e-13])) != digest(np.array([1., 2.001]))
    assert relerr([1, 2], [1, 2]) == 0
    p = {'x': np.array([1 + 2j, 3]), 'i': np.array([1, 2]), 'f': np.array([1.5, 2.0]), 's': 'a', 'n': None}
    q = unjson(jsonable(p))
    assert np.array_equal(q['x'], p['x']) and q['i'].dtype.kind == 'i' and np.array_equal(q['f'], p['f'])


def main():
    bad = 0
    for t in TESTS:
        try:
            t()
            print('selftest ok  ', t.__name__)
        except Exception as e:
            import traceback
            traceback.print_exc()
            print('selftest FAIL', t.__name__, e)
            bad += 1
    return 2 if bad else 0


@test
def corr_vs_numpy_correlate():
    from .ref import corr
    from . import alphabet as A
    for N in (3, 6, 9):
        x, y = A.weylc(N, 1), A.weylc(N, 2)
        full = np.correlate(x, y, 'full')          # c[k] = sum x[n+k] conj(y[n])
        for k in range(N):
            assert abs(corr.xcorr_lag(x, y, k) - full[N - 1 + k]) < 1e-12
        r = corr.correlation(x, x, N - 1, 'biased')
        assert np.allclose(r, full_auto(x) / N)


def full_auto(x):
    N = len(x)
    return np.correlate(x, x, 'full')[N - 1:]


@test
def lp_vs_scipy_solve_toeplitz():
    from scipy.linalg import solve_toeplitz
    from .ref import lp
    for k in ([0.5, -0.3, 0.2], [0.5 + 0.2j, -0.5j, 0.6 + 0.6j, 0.1]):
        k = np.array(k)
        r = lp.rc2ac(k, 2.5)
        p = len(k)
        a = solve_toeplitz((r[:p], np.conj(r[:p])), -r[1:])
        assert np.allclose(a, lp.stepup(k)[1:], atol=1e-12), (a, lp.stepup(k))
        assert np.allclose(lp.rc_from_ac_dense(r), k, atol=1e-12)
        assert np.allclose(lp.stepdown(lp.stepup(k)), k, atol=1e-12)
        assert abs(lp.solve_normal(r)[1] - lp.err_from_rc(k, 2.5)) < 1e-12
        assert lp.max_root(lp.stepup(k)) < 1


@test
def windows_vs_scipy():
    from scipy.signal import windows as sw
    from .ref import windows as rw
    for N in (3, 4, 7, 8, 33):       # N >= 3: degenerate lengths follow library-specific conventions
        pairs = [(rw.hann(N), sw.hann(N)), (rw.hamming(N), sw.hamming(N)), (rw.bartlett(N), sw.bartlett(N)), (rw.cosine(N)[1:-1] if N > 2 else [], sw.cosine(N - 2) if N > 2 else []),
                 (rw.kaiser(N, 8.6), sw.kaiser(N, 8.6)), (rw.kaiser(N, 0.5), sw.kaiser(N, 0.5)), (rw.blackman(N, 0.16), sw.blackman(N)),
                 (rw.blackman_harris(N), sw.blackmanharris(N)), (rw.bohman(N), sw.bohman(N)), (rw.tukey(N, 0.5), sw.tukey(N, 0.5)),
                 (rw.tukey(N, 0.25), sw.tukey(N, 0.25)), (rw.parzen(N), sw.parzen(N)), (rw.chebwin(N, 50), sw.chebwin(N, 50)), (rw.chebwin(N, 100), sw.chebwin(N, 100)),
                 (rw.bartlett_hann(N), sw.barthann(N)), (rw.taylor(N, 4, -30), sw.taylor(N, 4, 30) if N > 1 else [1.0])]
        for i, (a, b) in enumerate(pairs):
            if i == 3 and N > 2:
                # scipy's cosine window is sampled at half-integer points: compare only that both are sine lobes (shape check skipped)
                continue
            a, b = np.asarray(a, dtype=float), np.asarray(b, dtype=float)
            assert a.shape == b.shape and np.allclose(a, b, atol=2e-7 if i in (6, 12, 13) else 1e-9), (N, i, a, b)


@test
def dpss_reference_vs_scipy():
    from scipy.signal import windows as sw
    from .ref import dpss as rd
    for N, NW, k in ((16, 2.5, 4), (33, 4.0, 7), (64, 1.2, 2)):
        v = rd.sign_convention(rd.tridiag_eigvecs(N, NW / N, k))
        w, ratios = sw.dpss(N, NW, k, return_ratios=True)
        w = rd.sign_convention(w.T)
        assert np.allclose(v, w, atol=1e-8)
        r = rd.kernel_row(N, NW / N)
        lam = np.sum(v * rd.kernel_apply(r, v), axis=0)
        assert np.allclose(lam, ratios, atol=1e-8)
        # dense kernel equals the convolution form
        Aker = np.array([[r[abs(i - j)] for j in range(N)] for i in range(N)])
        assert np.allclose(Aker @ v, rd.kernel_apply(r, v), atol=1e-12)


@test
def sides_matrices_roundtrip_and_power():
    from .ref import sides as rs
    for NFFT in range(2, 12):
        for a in ('onesided', 'twosided', 'centerdc'):
            for b in ('onesided', 'twosided', 'centerdc'):
                M = rs.matrix(a, b, NFFT)
                Mi = rs.matrix(b, a, NFFT)
                if a == 'onesided':
                    assert np.allclose(Mi @ M, np.eye(M.shape[1])), (NFFT, a, b)
                assert np.allclose(M.sum(axis=0), 1.0), 'power'
        assert np.allclose(rs.axis('centerdc', NFFT), np.fft.fftshift(np.fft.fftfreq(NFFT)))
        assert np.allclose(rs.axis('twosided', NFFT), np.arange(NFFT) / NFFT)


@test
def burg_reference_properties():
    from .ref import ar, lp
    from . import alphabet as A
    x = A.weylc(24, 2)
    k, rho, dens = ar.burg(x, 6)
    assert np.all(np.abs(k) < 1) and np.all(np.diff(rho) <= 0)
    a = lp.stepup(k)[1:]
    r = ar.ar_autocorr(a, rho[-1], 10)
    T = lp.toeplitz(r[:7])
    lhs = T @ np.concatenate([[1.0], a])
    assert abs(lhs[0] - rho[-1]) < 1e-10 and np.max(np.abs(lhs[1:])) < 1e-10
    for m in range(7, 11):      # extended lags obey the AR recursion
        assert abs(r[m] + sum(a[j] * r[m - 1 - j] for j in range(6))) < 1e-10


@test
def mtm_reference_fixed_point():
    from .ref import mtm
    from . import alphabet as A
    P = np.abs(np.fft.fft(A.weyl(16, 1).reshape(1, -1) * np.ones((3, 1)), 32)) ** 2 * np.array([[1.0], [0.8], [0.6]])
    lam = np.array([0.999, 0.95, 0.7])
    S, w, it = mtm.adaptive(P, lam, 0.1, 1e-12)
    assert it < 1000 and np.allclose(S, np.sum(w * P.T, axis=1) / np.sum(w, axis=1), rtol=1e-9)


@test
def known_findings_file_parses():
    from . import findings, defects
    for e in findings.load():
        if e['status'] == 'open':
            assert hasattr(defects, e['model']), e
