"""Triangulation of the reference models against unrelated third-party routines, and a few
self-checks of the machinery.  A failure here is a harness error (exit 2), never a VIOLATION."""
import sys
import numpy as np

TESTS = []


def test(f):
    TESTS.append(f)
    return f


@test
def dft_vs_numpy_fft():
    from .ref import dft
    from . import alphabet as A
    for N in range(1, 14):
        for NFFT in (N, N + 1, 2 * N + 1, 4 * N):
            x = A.weylc(N, 3)
            assert np.allclose(dft.dft(x, NFFT), np.fft.fft(x, NFFT), rtol=0, atol=1e-12)


@test
def core_close_and_digest():
    from .core import close, digest, relerr, jsonable, unjson
    assert close([1, 2, 3], [1, 2, 3 + 1e-12]) and not close([1, 2, 3], [1, 2, 3.001])
    assert not close([1, 2], [1, 2, 3]) and not close([1, np.nan], [1, 2])
    assert close([1, np.nan], [1, np.nan])
    assert digest(np.array([1., 2.])) == digest(np.array([1., 2. + 1e-13])) != digest(np.array([1., 2.001]))
    assert relerr([1, 2], [1, 2]) == 0
    p = {'x': np.array([1 + 2j, 3]), 'i': np.array([1, 2]), 'f': np.array([1.5, 2.0]), 's': 'a', 'n': None}
    q = unjson(jsonable(p))
    assert np.array_equal(q['x'], p['x']) and q['i'].dtype.kind == 'i' and np.array_equal(q['f'], p['f'])


def main():
    bad = 0
    for t in TESTS:
        try:
            t()
            print('selftest ok  ', t.__name__)
        except Exception as e:
            import traceback
            traceback.print_exc()
            print('selftest FAIL', t.__name__, e)
            bad += 1
    return 2 if bad else 0
