"""Which properties have a registered check (used to generate MANIFEST.json)."""
_EX_NOTE = ('trusted base: numpy/scipy numerics, the reference models under mc/ref (triangulated against third-party routines in --selftest), '
            'the stated tolerances; data values outside the enumerated lattices and fixed families are not covered')
CHECKS = {
    'C01': {'engine': 'EX', 'design_ref': 'DESIGN.md 6 C01',
            'technique': 'bounded exhaustive enumeration (polarisation set + integer lattices x all windows x NFFT ladder) against an explicit-sum DFT model',
            'text': 'Every point of a finite input x configuration space is executed on the real code and compared with an explicit DFT reference; '
                    'the polarisation set decides the quadratic form for each (N, window, NFFT), lattice sweeps check there is no other dependence.',
            'note': _EX_NOTE},
}
CHECKS['C06'] = {'engine': 'BFS', 'design_ref': 'DESIGN.md 6 C06',
    'technique': 'explicit-state BFS over sides-assignment histories on real Spectrum objects (full-state hashing) + exhaustive basis-vector enumeration of the tools helpers, against axis-derived conversion matrices',
    'text': 'All histories of sides assignments up to the depth bound (a fixpoint is reached) from every basis PSD vector, both data types, every NFFT in the bound; every distinct state is compared with a reference conversion matrix built from the frequency axes.',
    'note': _EX_NOTE}
CHECKS['C07'] = {'engine': 'BFS', 'design_ref': 'DESIGN.md 6 C07',
    'technique': 'explicit-state BFS over setter/call/read histories of real estimator objects (full vars() state hashing; depth 3 from fresh and from computed objects in quick, depth 5 (four classes) and 4 (eight classes) in thorough) with a fresh-object differential oracle and a reference model of the attribute store in every distinct state',
    'text': 'All histories up to the depth bound over a 22-30 event menu (setters incl. numpy-integer orders and near-equal sampling rates, data records, in-place refilled caller buffer, call, read) per class and data type are executed on real objects; every distinct concrete state is probed on a disposable rebuild against a freshly constructed object with the same final attribute values.',
    'note': _EX_NOTE + '; the fresh-object estimate is the oracle (its numerical correctness is decided by the other properties)'}
CHECKS['C09'] = {'engine': 'EX', 'design_ref': 'DESIGN.md 6 C09',
    'technique': 'bounded exhaustive enumeration of all sequence pairs over small lattices x lags x norms against textbook double-loop sums',
    'text': 'Every pair of lattice sequences of equal and unequal lengths up to the bound, every lag and every normalisation is executed on CORRELATION, xcorr and corrmtx and compared with explicit sums.',
    'note': _EX_NOTE}
CHECKS['C10'] = {'engine': 'EX', 'design_ref': 'DESIGN.md 6 C10',
    'technique': 'bounded exhaustive enumeration of reflection-coefficient lattices / lattice autocorrelations / diagonally dominant Toeplitz systems against dense linear algebra built from the definitions',
    'text': 'Every autocorrelation generated from a 5-letter reflection-coefficient alphabet up to the order bound (plus families to order 40), every lattice sequence classified PD / indefinite, every order argument, and every small lattice Toeplitz / Hermitian / Cholesky system is solved by the real code and the defining equations are checked on dense matrices.',
    'note': _EX_NOTE}
CHECKS['C11'] = {'engine': 'EX', 'design_ref': 'DESIGN.md 6 C11',
    'technique': 'bounded exhaustive enumeration of reflection-coefficient lattices, all conversion pairs and compositions, against textbook step-up/step-down and dense normal equations',
    'text': 'For every reflection-coefficient vector of the lattice (orders to the bound, families to 16, real and complex) all six conversions, their compositions and round trips, LAR / inverse-sine bijections and LSF round trips are executed and compared with an independent reference.',
    'note': _EX_NOTE}
CHECKS['C12'] = {'engine': 'EX', 'design_ref': 'DESIGN.md 6 C12',
    'technique': 'bounded exhaustive enumeration of lattice data and fixed families (incl. integer PCM, amplitude-scaled, non-contiguous records) x every order against dense normal equations on a double-loop autocorrelation and dense least squares; exhaustive short histories on pyule objects',
    'text': 'Every non-zero lattice sequence of every length in the bound and fixed families to N=200, with every order 1..min(N-1,30): stability, normal equations on the reference biased autocorrelation, least-squares equivalence, lpc and pyule agreement.',
    'note': _EX_NOTE}
CHECKS['C13'] = {'engine': 'EX', 'design_ref': 'DESIGN.md 6 C13',
    'technique': 'bounded exhaustive enumeration of lattice data and fixed families (incl. integer PCM, amplitude-scaled, non-contiguous records) x every order x every criterion; returned reflection coefficients replayed through a reference lattice filter (stage-wise minimiser), nesting; exhaustive criteria histories on pburg objects',
    'text': 'Every lattice sequence of every length in the bound and fixed families to N=200, every order, all six criteria: the returned coefficients are replayed through an independent lattice filter that recomputes each stage optimum; nesting and criterion results are compared bit for bit.',
    'note': _EX_NOTE}
CHECKS['C14'] = {'engine': 'EX', 'design_ref': 'DESIGN.md 6 C14',
    'technique': 'bounded exhaustive enumeration of lattice data x every order and of every frequency subset (exact recovery) against explicit-loop data matrices and dense least squares',
    'text': 'Every lattice sequence and fixed family with every admissible order: orthogonality of the residual, minimum energy, agreement of the fast recursions (per-sample normalisation); every p-subset of grid frequencies for exact recovery.',
    'note': _EX_NOTE}
CHECKS['C02'] = {'engine': 'EX', 'design_ref': 'DESIGN.md 6 C02',
    'technique': 'bounded exhaustive enumeration of class x data type x N x NFFT ladder x sampling x order x every tone bin (deviation-bounded in quick, full product in thorough) against the k*fs/NFFT grid model',
    'text': 'Every estimator class is constructed for every configuration of the product and every on-grid tone bin; length, axis, realness and peak placement are checked against the grid definition.',
    'note': _EX_NOTE}
CHECKS['C03'] = {'engine': 'EX', 'design_ref': 'DESIGN.md 6 C03',
    'technique': 'bounded exhaustive metamorphic enumeration: every estimator (functions and classes) x every lattice / family data vector x every scalar of the alphabet, f(c x) against |c|^p f(x)',
    'text': 'For every estimator, every data vector of the lattices and fixed families and every scalar of the alphabet, the scaled call is compared with the prescribed power of |c| times the unscaled result for every returned quantity.',
    'note': _EX_NOTE}
CHECKS['C04'] = {'engine': 'EX', 'design_ref': 'DESIGN.md 6 C04',
    'technique': 'bounded exhaustive metamorphic enumeration: 12 classes x lattice / family data x NFFT parities x EVERY shift bin, conjugation, real-vs-complex declaration, time reversal',
    'text': 'For every class, data vector, NFFT and every integer shift m the modulated-data estimate is compared with the rotated estimate; conjugation, one-sided = 2 x half and time-reversal relations likewise.',
    'note': _EX_NOTE}
CHECKS['C05'] = {'engine': 'EX', 'design_ref': 'DESIGN.md 6 C05',
    'technique': 'bounded exhaustive metamorphic enumeration: 12 classes x data x EVERY admissible NFFT1 up to 2N+3 x multipliers {2,3,4}; common-grid values and bit-identical model parameters; NFFT setter on live objects',
    'text': 'For every class, data vector and every admissible NFFT1 the estimate on the c*NFFT1 grid is compared at all common frequencies and the model parameters must be identical.',
    'note': _EX_NOTE}
CHECKS['C08'] = {'engine': 'EX', 'design_ref': 'DESIGN.md 6 C08',
    'technique': 'bounded exhaustive enumeration: 12 classes x data x sampling alphabet x NFFT x scale_by_freq; arma2psd over every coefficient vector of a 5-letter alphabet up to length 3 against direct polynomial evaluation',
    'text': 'Every class for every sampling frequency and both scale_by_freq values; arma2psd for every lattice coefficient vector, variance, sampling and NFFT, compared with direct evaluation of (rho/T)|B|^2/|A|^2.',
    'note': _EX_NOTE}
CHECKS['C15'] = {'engine': 'EX', 'design_ref': 'DESIGN.md 6 C15',
    'technique': 'bounded exhaustive enumeration of every (P,Q,lag) / (Q,M) in the documented domain on fixed noise-like and ARMA-generated records; dense modified Yule-Walker reference; PSD against |B|^2/|A|^2 of the exposed coefficients',
    'text': 'Every order triple in the domain (both solver branches) on every record of the fixed families: counts, invertibility, positive variance, modified Yule-Walker least squares for P=Q, class PSD proportionality.',
    'note': _EX_NOTE}
CHECKS['C16'] = {'engine': 'EX', 'design_ref': 'DESIGN.md 6 C16',
    'technique': 'bounded exhaustive enumeration of lattice data and fixed families x every dimension m x NFFT parities x sampling against the dense quadratic form e^H R^-1 e built from a reference Burg lattice',
    'text': 'Every lattice sequence and fixed record, every m in 2..min(N/2,16): the returned spectrum is compared with sampling / Re(e^H R^-1 e) computed densely from an independent Burg model.',
    'note': _EX_NOTE}
CHECKS['C17'] = {'engine': 'EX', 'design_ref': 'DESIGN.md 6 C17',
    'technique': 'bounded exhaustive enumeration of EVERY K-subset (K<=3) of the NFFT grid x amplitudes x N x every P x {music, ev}; reference forward-backward SVD; full product of argument-validation cases',
    'text': 'Every subset of on-grid frequencies with every subspace order: peak neighbourhoods dominate, positivity, singular values equal those of the reference data matrix, exactly K non-negligible; invalid argument combinations raise.',
    'note': _EX_NOTE}
CHECKS['C18'] = {'engine': 'EX', 'design_ref': 'DESIGN.md 6 C18',
    'technique': 'bounded exhaustive enumeration of EVERY N in 8..512 (+ ladder to 4096) x 19 NW values x every k, C routine recompiled from source, against the sinc concentration kernel and an independent tridiagonal eigen-solver',
    'text': 'Every (N, NW, k) of the bound: orthonormality, ordering, concentration ratios against the explicit sinc kernel, eigenvector residuals, agreement with LAPACK tridiagonal eigenvectors, parity and sign conventions.',
    'note': _EX_NOTE + '; gcc must be available to rebuild src/cpp/mydpss.c'}
CHECKS['C19'] = {'engine': 'EX', 'design_ref': 'DESIGN.md 6 C19',
    'technique': 'bounded exhaustive enumeration of families x N x NW x every k x NFFT parities x 3 methods x internal/precomputed tapers against explicit-sum DFTs, closed-form weights and a reference Thomson iteration',
    'text': 'Every configuration of the product: eigenspectra equal explicit DFTs of taper*data, weights equal their closed forms or the reference adaptive iteration (inverted through Thomson formula), class PSD equals the weighted mean, precomputed tapers give the identical triple.',
    'note': _EX_NOTE + '; tapers are taken from dpss of the same tree (C18)'}
CHECKS['C20'] = {'engine': 'EX', 'design_ref': 'DESIGN.md 6 C20',
    'technique': 'bounded exhaustive enumeration of all 29 names x EVERY N in 1..512 (+ ladder to 16384) x complete parameter grids x all keyword/alias combinations against scalar-math closed forms',
    'text': 'Every window name, every length, every documented parameter value: well-formedness clauses, closed-form definitions in scalar math, factory forwarding, rejection of undocumented keywords, aliases, Window object.',
    'note': _EX_NOTE}
NOT_BUILT = {}
