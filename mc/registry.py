"""Which properties have a registered check (used to generate MANIFEST.json)."""
_EX_NOTE = ('trusted base: numpy/scipy numerics, the reference models under mc/ref (triangulated against third-party routines in --selftest), '
            'the stated tolerances; data values outside the enumerated lattices and fixed families are not covered')
CHECKS = {
    'C01': {'engine': 'EX', 'design_ref': 'DESIGN.md 6 C01',
            'technique': 'bounded exhaustive enumeration (polarisation set + integer lattices x all windows x NFFT ladder) against an explicit-sum DFT model',
            'text': 'Every point of a finite input x configuration space is executed on the real code and compared with an explicit DFT reference; '
                    'the polarisation set decides the quadratic form for each (N, window, NFFT), lattice sweeps check there is no other dependence.',
            'note': _EX_NOTE},
}
CHECKS['C06'] = {'engine': 'BFS', 'design_ref': 'DESIGN.md 6 C06',
    'technique': 'explicit-state BFS over sides-assignment histories on real Spectrum objects (full-state hashing) + exhaustive basis-vector enumeration of the tools helpers, against axis-derived conversion matrices',
    'text': 'All histories of sides assignments up to the depth bound (a fixpoint is reached) from every basis PSD vector, both data types, every NFFT in the bound; every distinct state is compared with a reference conversion matrix built from the frequency axes.',
    'note': _EX_NOTE}
CHECKS['C07'] = {'engine': 'BFS', 'design_ref': 'DESIGN.md 6 C07',
    'technique': 'explicit-state BFS over setter/call/read histories of real estimator objects (full vars() state hashing, depth-bounded) with a fresh-object differential oracle in every distinct state',
    'text': 'All histories up to the depth bound over a 18-24 event menu per class and data type are executed on real objects; every distinct concrete state is probed on a disposable rebuild against a freshly constructed object with the same final attribute values.',
    'note': _EX_NOTE + '; the fresh-object estimate is the oracle (its numerical correctness is decided by the other properties)'}
CHECKS['C09'] = {'engine': 'EX', 'design_ref': 'DESIGN.md 6 C09',
    'technique': 'bounded exhaustive enumeration of all sequence pairs over small lattices x lags x norms against textbook double-loop sums',
    'text': 'Every pair of lattice sequences of equal and unequal lengths up to the bound, every lag and every normalisation is executed on CORRELATION, xcorr and corrmtx and compared with explicit sums.',
    'note': _EX_NOTE}
NOT_BUILT = {}
