"""Explicit finite alphabets.  Nothing here is random: the 'noise-like' families are Weyl
sequences frac(alpha*(n+1)^2) - 1/2 with a fixed list of irrationals."""
import itertools
import math
import numpy as np


def ZR(q):
    return [float(v) for v in range(-q, q + 1)]


ZC = [complex(a, b) for a in (-1, 0, 1) for b in (-1, 0, 1)]
ZC5 = [0j, 1 + 0j, -1 + 0j, 1j, 1 + 1j]
DYN = [1e-6, 1.0, 1e6]
SCAL_R = [1e-3, 0.5, -1.0, 2.0, 1e3]
SCAL_C = [1j, (3 + 3j) / math.sqrt(2), 1e3 * complex(math.cos(math.pi / 3), math.sin(math.pi / 3)),
          1e-3 * complex(math.cos(-1), math.sin(-1))]
FS = [1.0, 4.0, 0.5, 0.02, 1000.0, 44100.0]

_IRR = [math.sqrt(2), math.sqrt(3), math.sqrt(5), math.sqrt(7), math.pi, math.e,
        math.sqrt(11), math.sqrt(13), math.sqrt(17), math.sqrt(19), (1 + math.sqrt(5)) / 2, math.log(2) * 3]


def weyl(N, j=0):
    """j-th fixed real noise-like sequence, roughly uniform on [-1/2, 1/2)."""
    n = np.arange(1, N + 1, dtype=float)
    a = _IRR[j % len(_IRR)] + 0.1 * (j // len(_IRR))
    return np.mod(a * n * n, 1.0) - 0.5


def weylc(N, j=0):
    return weyl(N, 2 * j) + 1j * weyl(N, 2 * j + 1)


def eta(N, cplx=False):
    """The fixed unit-variance perturbation sequence."""
    s = math.sqrt(12.0)
    if cplx:
        return (weyl(N, 0) + 1j * weyl(N, 1)) * s / math.sqrt(2)
    return weyl(N, 0) * s


def seqs(alpha, N):
    """All sequences of length N over alpha, simplest-first (lexicographic in alphabet order)."""
    return itertools.product(alpha, repeat=N)


def pol(N, cplx=True):
    """Polarisation set: e_i ; e_i + e_j (i<j) ; e_i + 1j*e_j (i != j)."""
    out = []
    for i in range(N):
        v = np.zeros(N, dtype=complex if cplx else float)
        v[i] = 1
        out.append(v)
    for i in range(N):
        for j in range(i + 1, N):
            v = np.zeros(N, dtype=complex if cplx else float)
            v[i] = 1
            v[j] = 1
            out.append(v)
    if cplx:
        for i in range(N):
            for j in range(N):
                if i != j:
                    v = np.zeros(N, dtype=complex)
                    v[i] = 1
                    v[j] = 1j
                    out.append(v)
    return out


def is_prime(n):
    if n < 2:
        return False
    for d in range(2, int(n ** 0.5) + 1):
        if n % d == 0:
            return False
    return True


def next_prime(n):
    while not is_prime(n):
        n += 1
    return n


def nextpow2(n):
    p = 1
    while p < n:
        p *= 2
    return p


def nffts(N):
    """Concrete NFFT ladder >= N: N, N+1, N+2, N+3, 2N-1, 2N, 2N+1, 3N, 4N+1, next prime, next pow2."""
    c = [N, N + 1, N + 2, N + 3, 2 * N - 1, 2 * N, 2 * N + 1, 3 * N, 4 * N + 1, next_prime(max(N, 2)), nextpow2(N)]
    out = []
    for v in c:
        if v >= N and v >= 1 and v not in out:
            out.append(v)
    return out


def gen_real(N):
    """Fixed named real test sequences of length N."""
    n = np.arange(N, dtype=float)
    out = [('weyl%d' % j, weyl(N, j)) for j in range(6)]
    out.append(('ramp', n + 1.0))
    out.append(('const', np.ones(N)))
    out.append(('alt', (-1.0) ** n + 0.25 * weyl(N, 7)))
    out.append(('ar1_0.9', 0.9 ** n + 0.1 * weyl(N, 8)))
    out.append(('ar2', np.real((0.7 * np.exp(1j * np.pi / 3)) ** n) + 0.1 * weyl(N, 9)))
    return out


def gen_cplx(N):
    n = np.arange(N, dtype=float)
    out = [('cweyl%d' % j, weylc(N, j)) for j in range(6)]
    out.append(('cramp', (n + 1.0) * (1 + 0.5j)))
    out.append(('cexp', np.exp(2j * np.pi * 0.2 * n) + 0.2 * weylc(N, 7)))
    out.append(('car1', (0.7 * np.exp(1j * np.pi / 3)) ** n + 0.1 * weylc(N, 8)))
    return out


def tones_real(N):
    """Fixed real tone-in-(tiny)-noise records: every combination of f in {0.1, 0.23, 0.4} x eps in {0, 1e-3, 0.1}."""
    n = np.arange(N, dtype=float)
    out = []
    for f in (0.1, 0.23, 0.4):
        for eps in (0.0, 1e-3, 0.1):
            out.append(('tone%g+%g' % (f, eps), np.cos(2 * np.pi * f * n + 0.3) + eps * eta(N)))
    out.append(('2tones', np.cos(2 * np.pi * 0.1 * n) + 0.5 * np.sin(2 * np.pi * 0.31 * n) + 0.05 * eta(N)))
    out.append(('ramp+tone', 0.05 * n + np.cos(2 * np.pi * 0.2 * n) + 0.05 * eta(N)))
    return out


def tones_cplx(N):
    n = np.arange(N, dtype=float)
    out = []
    for f in (0.1, -0.23, 0.4):
        for eps in (0.0, 1e-3, 0.1):
            out.append(('ctone%g+%g' % (f, eps), np.exp(2j * np.pi * f * n + 0.3j) + eps * eta(N, True)))
    out.append(('c2tones', np.exp(2j * np.pi * 0.1 * n) + 0.5j * np.exp(-2j * np.pi * 0.31 * n) + 0.05 * eta(N, True)))
    return out


def pcm(N):
    """Fixed narrow-integer records as produced by WAV readers: int16 near full scale and uint8.  Products of two samples
    overflow the sample dtype, so any estimator that forgets to promote computes garbage."""
    n = np.arange(N, dtype=float)
    out = [('pcm16_tone', np.round(20000 * np.cos(2 * np.pi * 0.2 * n + 0.3) + 6000 * weyl(N, 4)).astype(np.int16)),
           ('pcm16_noise', np.round(60000 * weyl(N, 5)).astype(np.int16)),
           ('pcm16_fullscale', np.where(n % 2 == 0, 32767, -32768).astype(np.int16) // np.where(n % 3 == 0, 2, 1).astype(np.int16)),
           ('pcm8', np.round(128 + 100 * np.cos(2 * np.pi * 0.13 * n) + 40 * weyl(N, 6)).astype(np.uint8))]
    return out


def prom(a):
    """The mathematical value of integer samples (no wrap-around): promote integer arrays to float64."""
    a = np.asarray(a)
    if a.dtype == np.float32:
        return a.astype(np.float64)         # exact widening: the mathematical value of a single-precision record
    if a.dtype == np.complex64:
        return a.astype(np.complex128)
    return a.astype(float) if a.dtype.kind in 'iub' else a


def scaled(fam, n=3, factors=(1e-8, 1e6)):
    """Amplitude variants of the first n records of a family: the estimators must not contain absolute thresholds or
    epsilons, so very small (1e-8) and large (1e6) records are part of 'all data'."""
    out = []
    for name, x in fam[:n]:
        for f in factors:
            out.append(('%s*%g' % (name, f), x * f))
    return out


def pcm64(N):
    """32-bit full-scale samples held in int64 arrays / Python int lists: products of two samples times N exceed 2^63."""
    n = np.arange(N, dtype=float)
    a = np.round(2.0e9 * np.cos(2 * np.pi * 0.17 * n + 0.2) + 1.0e9 * weyl(N, 3)).astype(np.int64)
    return [('pcm32_in_int64', a)]


def strided(fam, n=2):
    """Non-contiguous views (every second element of an interleaved buffer) of the first n records."""
    out = []
    for name, x in fam[:n]:
        buf = np.empty(2 * len(x), dtype=x.dtype)
        buf[0::2] = x
        buf[1::2] = -7.0 * x[::-1] + 3.0
        out.append((name + '[::2]', buf[0::2]))
    return out


def single(fam, n=3):
    """Single-precision copies (float32 / complex64, e.g. SDR IQ captures and audio decoded to float32) of the first n float records of a
    family.  The mathematical value of the record is its exact widening to double precision (done by the reference models);
    the implementation may compute in single precision, so such records are judged at a single-precision tolerance."""
    out = []
    for name, x in fam:
        x = np.asarray(x)
        if x.dtype.kind not in 'fc' or len(out) >= n:
            continue
        out.append((name + ':f32', x.astype(np.complex64 if x.dtype.kind == 'c' else np.float32)))
    return out


def is_single(x):
    return np.asarray(x).dtype in (np.float32, np.complex64)


def clone(x):
    """A private copy of a record with the same dtype AND the same memory layout: a non-contiguous view stays a non-contiguous
    view (of a fresh interleaved buffer), so that handing the copy to the implementation still exercises strided access."""
    x = np.asarray(x)
    if x.ndim == 1 and len(x) > 1 and not x.flags['C_CONTIGUOUS']:
        buf = np.empty(2 * len(x), dtype=x.dtype)
        buf[1::2] = 0
        v = buf[0::2]
        v[:] = x
        return v
    return x.copy()


def layout(pt, x):
    """Replay fidelity: points of the strided family (name ending in '[::2]') are rebuilt as non-contiguous views when the
    record comes back from a replay file (JSON cannot carry a memory layout)."""
    x = np.asarray(x)
    if str(pt.get('name', '')).endswith('[::2]') and x.ndim == 1 and len(x) > 1 and x.flags['C_CONTIGUOUS']:
        buf = np.empty(2 * len(x), dtype=x.dtype)
        buf[1::2] = 0
        v = buf[0::2]
        v[:] = x
        return v
    return x


def extreme(fam, n=2, factors=(1e-120, 1e120)):
    """Records at the far ends of the floating-point range (squares 1e-240 / 1e240 are still representable): a computation that
    is homogeneous in the data must not form fourth powers or products of energies (they under/overflow here)."""
    out = []
    for name, x in fam:
        x = np.asarray(x)
        if x.dtype.kind not in 'fc' or len(out) >= n * len(factors):
            continue
        for f in factors:
            out.append(('%s*%g' % (name, f), x * f))
    return out


def shaped(N, cplx=False):
    """Smooth records that vanish at both ends (half-sine, Hann-shaped bump, parabola) and records riding on a large offset: admissible data
    whose first reflection coefficients are within 1e-3 .. 1e-5 of the unit circle (nearly degenerate, not degenerate)."""
    n = np.arange(N, dtype=float)
    out = [('halfsine', np.sin(np.pi * (n + 0.5) / N)), ('hannbump', 0.5 - 0.5 * np.cos(2 * np.pi * (n + 0.5) / N)),
           ('parabola', (n + 0.5) * (N - 0.5 - n) / float(N * N)), ('offset50', 50.0 + weyl(N, 2)), ('adc1000', np.round(1000.0 + 5.0 * weyl(N, 3)))]
    if cplx:
        out = [(nm, v * np.exp(2j * np.pi * 0.07 * n)) for nm, v in out[:3]] + [('coffset60', (60 + 60j) + eta(N, True))]
    return out


def near_noiseless(N, cplx=False):
    """Tones with noise 83-86 dB down: the prediction-error variance falls to a few 1e-9 of the data power, still above the degeneracy bound."""
    n = np.arange(N, dtype=float)
    if cplx:
        return [('ctone0.1+7e-5', np.exp(2j * np.pi * 0.1 * n + 0.3j) + 7e-5 * eta(N, True)), ('ctone-0.23+5e-5', np.exp(-2j * np.pi * 0.23 * n) + 5e-5 * eta(N, True))]
    return [('tone0.2+7e-5', np.cos(2 * np.pi * 0.2 * n + 0.3) + 7e-5 * eta(N))]
