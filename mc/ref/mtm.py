"""Reference Thomson adaptive multitaper iteration (Percival & Walden pp 368-370), written per frequency."""
import numpy as np


def adaptive(P, lam, sig2, tol, maxit=100000):
    """P: (K, NFFT) eigenspectra |Sk|^2; lam: (K,) concentrations.  Start from the mean of the first two
    eigenspectra; iterate S <- sum_k w_k P_k / sum_k w_k with w_k = lam_k (S / (lam_k S + sig2 (1-lam_k)))^2 until the
    mean absolute change is <= tol.  Returns S, weights (NFFT, K), number of iterations."""
    K, nf = P.shape
    S = (P[0] + P[1]) / 2.0
    a = sig2 * (1.0 - lam)
    it = 0
    w = np.ones((nf, K)) * lam[None, :]
    prev = np.zeros(nf)
    while np.sum(np.abs(S - prev)) / nf > tol and it < maxit:
        it += 1
        b = S[:, None] / (S[:, None] * lam[None, :] + a[None, :])
        w = b ** 2 * lam[None, :]
        prev = S
        S = np.sum(w * P.T, axis=1) / np.sum(w, axis=1)
    return S, w, it
