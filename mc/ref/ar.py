"""Reference AR estimators written from the definitions (explicit loops + dense solvers)."""
import numpy as np
from . import corr as rcorr
from . import lp


# ----------------------------------------------------------------- Burg lattice
def burg_stage_min(f, b, m):
    """Minimiser over k of sum_{j=m}^{N-1} |f[j] + k b[j-1]|^2 + |b[j-1] + conj(k) f[j]|^2
    together with the denominator (forward+backward energy entering stage m)."""
    N = len(f)
    num = 0.0
    den = 0.0
    for j in range(m, N):
        num = num + f[j] * np.conj(b[j - 1])
        den = den + abs(f[j]) ** 2 + abs(b[j - 1]) ** 2
    return (-2.0 * num / den if den != 0 else np.nan), float(den)


def lattice_step(f, b, k, m):
    """Errors of stage m from those of stage m-1 (only indices >= m are meaningful)."""
    N = len(f)
    f2 = f.copy()
    b2 = b.copy()
    for j in range(N - 1, m - 1, -1):
        f2[j] = f[j] + k * b[j - 1]
        b2[j] = b[j - 1] + np.conj(k) * f[j]
    return f2, b2


def burg(x, p):
    """Reference Burg: returns k (p), rho (p+1 stage variances, rho[0]=mean|x|^2), den (stage energies)."""
    x = np.asarray(x).astype(complex)
    N = len(x)
    f = x.copy()
    b = x.copy()
    ks = []
    rho = [float(np.sum(np.abs(x) ** 2) / N)]
    dens = []
    for m in range(1, p + 1):
        k, den = burg_stage_min(f, b, m)
        dens.append(den)
        if not np.isfinite(k):
            break
        ks.append(k)
        rho.append(rho[-1] * (1.0 - abs(k) ** 2))
        f, b = lattice_step(f, b, k, m)
    return np.array(ks), np.array(rho), np.array(dens)


# ----------------------------------------------------------------- least-squares AR
def ls_ar(x, p, method):
    """Least-squares AR fit on the reference data matrix; returns a, minimum energy, Gram condition."""
    X = rcorr.datamatrix(x, p, method)
    Xc = X[:, 1:]
    x1 = X[:, 0]
    G = np.conj(Xc.T) @ Xc
    sv = np.linalg.svd(Xc, compute_uv=False)
    cond = float(sv[0] / sv[-1]) ** 2 if sv[-1] > 1e-150 * max(sv[0], 1e-300) else float('inf')
    a, *_ = np.linalg.lstsq(Xc, -x1, rcond=None)
    res = x1 + Xc @ a
    emin = float(np.real(np.vdot(res, res)))
    return a, emin, cond, X


# ----------------------------------------------------------------- model autocorrelation of an AR model
def ar_autocorr(a, rho, nlags):
    """r[0..nlags] of the AR process with polynomial [1,a] and driving variance rho,
    through step-down to reflection coefficients and the Levinson relations."""
    a = np.asarray(a)
    poly = np.concatenate([[1.0], a])
    k = lp.stepdown(poly)
    r0 = rho / float(np.prod(1.0 - np.abs(k) ** 2))
    r = list(lp.rc2ac(k, r0))
    p = len(a)
    while len(r) <= nlags:
        m = len(r)
        r.append(-sum(a[j] * r[m - 1 - j] for j in range(p)))
    return np.array(r[:nlags + 1])


def fb_matrix(x, P):
    """Forward-backward data matrix of order P: rows x[i+P-1..i] and conj(x[i+1..i+P]), i < N-P."""
    x = np.asarray(x).astype(complex)
    N = len(x)
    NP = N - P
    FB = np.zeros((2 * NP, P), dtype=complex)
    for i in range(NP):
        for k in range(P):
            FB[i, k] = x[i - k + P - 1]
            FB[i + NP, k] = np.conj(x[i + k + 1])
    return FB
