"""Reference Slepian sequences: dense sinc concentration kernel and the commuting tridiagonal matrix."""
import numpy as np


def kernel_row(N, W):
    """First row r[m] = sin(2 pi W m)/(pi m), r[0] = 2W of the concentration kernel A[i,j] = r[|i-j|]."""
    m = np.arange(N, dtype=float)
    r = np.empty(N)
    r[0] = 2.0 * W
    r[1:] = np.sin(2 * np.pi * W * m[1:]) / (np.pi * m[1:])
    return r


def kernel_apply(r, V):
    """A @ V for the symmetric Toeplitz kernel with first row r (explicit convolution, no dense N x N matrix)."""
    N = len(r)
    full = np.concatenate([r[:0:-1], r])            # lags -(N-1)..(N-1)
    V = np.asarray(V, dtype=float)
    out = np.empty_like(V)
    for j in range(V.shape[1]):
        out[:, j] = np.convolve(V[:, j], full)[N - 1:2 * N - 1]
    return out


def tridiag_eigvecs(N, W, k):
    """Leading k eigenvectors (largest eigenvalues) of the commuting tridiagonal matrix, unit norm, columns ordered 0..k-1."""
    from scipy.linalg import eigh_tridiagonal
    i = np.arange(N, dtype=float)
    d = ((N - 1 - 2 * i) / 2.0) ** 2 * np.cos(2 * np.pi * W)
    e = i[1:] * (N - i[1:]) / 2.0
    w, v = eigh_tridiagonal(d, e, select='i', select_range=(N - k, N - 1))
    v = v[:, ::-1]
    return v


def sign_convention(v):
    """Even index: positive sum; odd index: first significant sample positive."""
    v = np.array(v, dtype=float)
    for j in range(v.shape[1]):
        if j % 2 == 0:
            if np.sum(v[:, j]) < 0:
                v[:, j] *= -1
        else:
            big = np.nonzero(np.abs(v[:, j]) > 1e-3 * np.max(np.abs(v[:, j])))[0][0]
            if v[big, j] < 0:
                v[:, j] *= -1
    return v
