"""Textbook correlation sums and data matrices (double loops, no FFT)."""
import numpy as np


def xcorr_lag(x, y, k):
    """sum_n x[n+k] * conj(y[n]) over all n where both exist (inputs zero padded)."""
    N = max(len(x), len(y))
    s = 0.0
    for n in range(N):
        i = n + k
        if 0 <= i < len(x) and n < len(y):
            s = s + x[i] * np.conj(y[n])
    return s


def correlation(x, y, maxlags, norm):
    """r[k], k=0..maxlags with divisor N (biased), N-k (unbiased), 1 (None); 'coeff': N*rms(x)*rms(y)."""
    x = np.asarray(x)
    y = np.asarray(y)
    N = max(len(x), len(y))
    cplx = np.iscomplexobj(x) or np.iscomplexobj(y)
    r = np.zeros(maxlags + 1, dtype=complex if cplx else float)
    for k in range(maxlags + 1):
        s = xcorr_lag(x, y, k)
        if norm == 'biased':
            r[k] = s / N
        elif norm == 'unbiased':
            r[k] = s / (N - k)
        elif norm is None:
            r[k] = s
        elif norm == 'coeff':
            rx = np.sqrt(np.sum(np.abs(x) ** 2) / N)
            ry = np.sqrt(np.sum(np.abs(y) ** 2) / N)
            r[k] = s / (N * rx * ry)
        else:
            raise ValueError(norm)
    return r


def toeplitz_herm(r):
    """T[i,j] = r[i-j], r[-m] = conj(r[m])."""
    p = len(r)
    T = np.zeros((p, p), dtype=np.asarray(r).dtype)
    for i in range(p):
        for j in range(p):
            T[i, j] = r[i - j] if i >= j else np.conj(r[j - i])
    return T


def datamatrix(x, m, method):
    """Rows [x[i], x[i-1], ..., x[i-m]] with zeros outside the record."""
    x = np.asarray(x)
    N = len(x)
    F = np.zeros((N + m, m + 1), dtype=complex if np.iscomplexobj(x) else float)
    for i in range(N + m):
        for j in range(m + 1):
            if 0 <= i - j < N:
                F[i, j] = x[i - j]
    if method == 'autocorrelation':
        return F
    if method == 'prewindowed':
        return F[0:N]
    if method == 'postwindowed':
        return F[m:N + m]
    if method == 'covariance':
        return F[m:N]
    if method == 'modified':
        T = F[m:N]
        return np.vstack([T, np.conj(T[:, ::-1])])
    raise ValueError(method)
