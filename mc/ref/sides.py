"""Reference model of PSD side conversions, built from the frequency axes only.

Bins are signed integers k (frequency k*df).  Axes:
  onesided : 0 .. floor(NFFT/2)           (NFFT/2+1 entries for even NFFT, (NFFT+1)/2 for odd)
  twosided : 0 .. NFFT-1
  centerdc : -floor(NFFT/2) .. ceil(NFFT/2)-1   (even: -N/2..N/2-1; odd: -(N-1)/2..(N-1)/2)
A value at source frequency f goes to the target entry with the same frequency modulo the
sampling rate; one-sided interior values are split equally between +f and -f, the DC and
(even NFFT) Nyquist values are not split."""
import numpy as np


def bins(sides, NFFT):
    if sides == 'onesided':
        return list(range(0, NFFT // 2 + 1))
    if sides == 'twosided':
        return list(range(NFFT))
    if sides == 'centerdc':
        return list(range(-(NFFT // 2), NFFT - NFFT // 2))
    raise ValueError(sides)


def axis(sides, NFFT, sampling=1.0):
    return np.array(bins(sides, NFFT), dtype=float) * (sampling / NFFT)


def matrix(src, dst, NFFT):
    """M with v_dst = M @ v_src."""
    to2 = np.zeros((NFFT, len(bins(src, NFFT))))
    for a, k in enumerate(bins(src, NFFT)):
        if src == 'onesided' and k != 0 and 2 * k != NFFT:
            to2[k % NFFT, a] = 0.5
            to2[(-k) % NFFT, a] = 0.5
        else:
            to2[k % NFFT, a] = 1.0
    db = bins(dst, NFFT)
    frm2 = np.zeros((len(db), NFFT))
    for a, k in enumerate(db):
        frm2[a, k % NFFT] += 1.0
        if dst == 'onesided' and k != 0 and 2 * k != NFFT:
            frm2[a, (-k) % NFFT] += 1.0
    return frm2 @ to2


def convert(v, src, dst, NFFT):
    return matrix(src, dst, NFFT) @ np.asarray(v, dtype=float)
