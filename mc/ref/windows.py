"""Closed-form window definitions in scalar Python math (no numpy vector formulas, no scipy)."""
import math
import cmath


def _x(n, N):
    """Position in [-1, 1]: -1 at n=0, +1 at n=N-1."""
    return -1.0 + 2.0 * n / (N - 1.0)


def i0(x):
    """Modified Bessel function I0 by its power series."""
    s = 1.0
    t = 1.0
    k = 1
    q = (x / 2.0) ** 2
    while True:
        t *= q / (k * k)
        s += t
        if t < 1e-18 * s:
            return s
        k += 1


def rectangular(N, **kw):
    return [1.0] * N


def bartlett(N, **kw):
    if N == 1:
        return [1.0]
    return [1.0 - abs(_x(n, N)) for n in range(N)]


def hann(N, **kw):
    if N == 1:
        return [1.0]
    return [0.5 - 0.5 * math.cos(2 * math.pi * n / (N - 1.0)) for n in range(N)]


def hamming(N, **kw):
    if N == 1:
        return [1.0]
    return [0.54 - 0.46 * math.cos(2 * math.pi * n / (N - 1.0)) for n in range(N)]


def blackman(N, alpha=0.16, **kw):
    if N == 1:
        return [1.0]
    a0, a1, a2 = (1 - alpha) / 2.0, 0.5, alpha / 2.0
    return [a0 - a1 * math.cos(2 * math.pi * n / (N - 1.0)) + a2 * math.cos(4 * math.pi * n / (N - 1.0)) for n in range(N)]


def cosine(N, **kw):
    if N == 1:
        return [1.0]
    return [math.sin(math.pi * n / (N - 1.0)) for n in range(N)]


def kaiser(N, beta=8.6, **kw):
    if N == 1:
        return [1.0]
    d = i0(beta)
    return [i0(beta * math.sqrt(max(0.0, 1.0 - _x(n, N) ** 2))) / d for n in range(N)]


def bartlett_hann(N, **kw):
    if N == 1:
        return [1.0]
    return [0.62 - 0.48 * abs(n / (N - 1.0) - 0.5) - 0.38 * math.cos(2 * math.pi * n / (N - 1.0)) for n in range(N)]


def _cos4(N, a):
    if N == 1:
        return [1.0]
    return [a[0] - a[1] * math.cos(2 * math.pi * n / (N - 1.0)) + a[2] * math.cos(4 * math.pi * n / (N - 1.0))
            - a[3] * math.cos(6 * math.pi * n / (N - 1.0)) for n in range(N)]


def nuttall(N, **kw):
    return _cos4(N, (0.355768, 0.487396, 0.144232, 0.012604))


def blackman_nuttall(N, **kw):
    return _cos4(N, (0.3635819, 0.4891775, 0.1365995, 0.0106411))


def blackman_harris(N, **kw):
    return _cos4(N, (0.35875, 0.48829, 0.14128, 0.01168))


def flattop(N, mode='symmetric', **kw):
    a = (0.21557895, 0.41663158, 0.277263158, 0.083578947, 0.006947368)
    if mode == 'symmetric' and N == 1:
        return [1.0]
    D = float(N) if mode == 'periodic' else N - 1.0
    out = []
    for n in range(N):
        x = 2 * math.pi * n / D
        out.append(a[0] - a[1] * math.cos(x) + a[2] * math.cos(2 * x) - a[3] * math.cos(3 * x) + a[4] * math.cos(4 * x))
    return out


def tukey(N, r=0.5, **kw):
    if N == 1 or r == 0:
        return [1.0] * N
    if r == 1:
        return hann(N)
    out = []
    for n in range(N):
        x = n / (N - 1.0)
        xx = min(x, 1.0 - x)
        if xx < r / 2.0:
            out.append(0.5 * (1 + math.cos(2 * math.pi / r * (xx - r / 2.0))))
        else:
            out.append(1.0)
    return out


def bohman(N, **kw):
    out = []
    for n in range(N):
        x = abs(_x(n, N)) if N > 1 else 1.0
        out.append((1.0 - x) * math.cos(math.pi * x) + math.sin(math.pi * x) / math.pi)
    return out


def gaussian(N, alpha=2.5, **kw):
    return [math.exp(-0.5 * (alpha * (n - (N - 1) / 2.0) / (N / 2.0)) ** 2) for n in range(N)]


def _sinc(x):
    return 1.0 if x == 0 else math.sin(math.pi * x) / (math.pi * x)


def lanczos(N, **kw):
    """Documented form sinc(2n/(N-1) - 1)."""
    if N == 1:
        return [1.0]
    return [_sinc(2.0 * n / (N - 1.0) - 1.0) for n in range(N)]


def _xe(n, N):
    """Positions used by the Harris-type windows of the library: linspace(-N/2, N/2, N)/(N/2), i.e. [-1, 1]."""
    return _x(n, N) if N > 1 else -1.0


def riesz(N, **kw):
    return [1.0 - _xe(n, N) ** 2 for n in range(N)]


def riemann(N, **kw):
    return [_sinc(_xe(n, N)) for n in range(N)]


def poisson(N, alpha=2, **kw):
    return [math.exp(-alpha * abs(_xe(n, N))) for n in range(N)]


def poisson_hanning(N, alpha=2, **kw):
    h = hann(N)
    p = poisson(N, alpha)
    return [a * b for a, b in zip(h, p)]


def cauchy(N, alpha=3, **kw):
    return [1.0 / (1.0 + (alpha * _xe(n, N)) ** 2) for n in range(N)]


def parzen(N, **kw):
    out = []
    for n in range(N):
        t = abs(n - (N - 1) / 2.0)
        u = t / (N / 2.0)
        if t <= (N - 1) / 4.0:
            out.append(1.0 - 6.0 * u ** 2 + 6.0 * u ** 3)
        else:
            out.append(2.0 * (1.0 - u) ** 3)
    return out


def taylor(N, nbar=4, sll=-30, **kw):
    B = 10 ** (-sll / 20.0)
    A = math.log(B + math.sqrt(B * B - 1)) / math.pi
    s2 = nbar ** 2 / (A ** 2 + (nbar - 0.5) ** 2)
    Fm = []
    for m in range(1, nbar):
        num = (-1) ** (m + 1)
        for i in range(1, nbar):
            num *= 1 - m ** 2 / s2 / (A ** 2 + (i - 0.5) ** 2)
        den = 2.0
        for j in range(1, nbar):
            if j != m:
                den *= 1 - m ** 2 / float(j ** 2)
        Fm.append(num / den)

    def W(n):
        return 1 + 2 * sum(Fm[m - 1] * math.cos(2 * math.pi * m * (n - N / 2.0 + 0.5) / N) for m in range(1, nbar))
    sc = W((N - 1) / 2.0)
    return [W(n) / sc for n in range(N)]


def chebwin(N, attenuation=50, **kw):
    """Dolph-Chebyshev window from its DFT definition (explicit DFT sums)."""
    if N == 1:
        return [1.0]
    order = N - 1
    beta = math.cosh(math.acosh(10 ** (abs(attenuation) / 20.0)) / order)
    p = []
    for k in range(N):
        x = beta * math.cos(math.pi * k / N)
        if x > 1:
            v = math.cosh(order * math.acosh(x))
        elif x < -1:
            v = (2 * (N % 2) - 1) * math.cosh(order * math.acosh(-x))
        else:
            v = math.cos(order * math.acos(x))
        p.append(v)
    if N % 2:
        w = [sum(p[k] * cmath.exp(-2j * math.pi * k * n / N) for k in range(N)).real for n in range(N)]
        n2 = (N + 1) // 2
        w = w[:n2]
        w = w[n2 - 1:0:-1] + w
    else:
        q = [p[k] * cmath.exp(1j * math.pi * k / N) for k in range(N)]
        w = [sum(q[k] * cmath.exp(-2j * math.pi * k * n / N) for k in range(N)).real for n in range(N)]
        n2 = N // 2 + 1
        w = w[n2 - 1:0:-1] + w[1:n2]
    mx = max(w)
    return [v / mx for v in w]


CLOSED = {
    'rectangular': rectangular, 'rectangle': rectangular, 'bartlett': bartlett, 'triangular': bartlett, 'hann': hann, 'hanning': hann,
    'hamming': hamming, 'blackman': blackman, 'cosine': cosine, 'sine': cosine, 'kaiser': kaiser, 'bartlett_hann': bartlett_hann,
    'nuttall': nuttall, 'blackman_nuttall': blackman_nuttall, 'blackman_harris': blackman_harris, 'flattop': flattop, 'tukey': tukey,
    'bohman': bohman, 'gaussian': gaussian, 'chebwin': chebwin, 'lanczos': lanczos, 'sinc': lanczos, 'riesz': riesz, 'riemann': riemann,
    'poisson': poisson, 'poisson_hanning': poisson_hanning, 'cauchy': cauchy, 'parzen': parzen, 'taylor': taylor,
}
