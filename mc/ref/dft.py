"""Explicit DFT sums (numpy.exp, not numpy.fft)."""
import numpy as np

_CACHE = {}


def dftmat(N, NFFT):
    key = (N, NFFT)
    m = _CACHE.get(key)
    if m is None:
        k = np.arange(NFFT).reshape(-1, 1)
        n = np.arange(N).reshape(1, -1)
        m = np.exp(-2j * np.pi * ((k * n) % NFFT) / NFFT)
        if len(_CACHE) > 4000:
            _CACHE.clear()
        _CACHE[key] = m
    return m


def dft(x, NFFT):
    """X[k] = sum_n x[n] exp(-2 pi i k n / NFFT), k=0..NFFT-1, zero padded (len(x) <= NFFT)."""
    x = np.asarray(x)
    assert len(x) <= NFFT
    return dftmat(len(x), NFFT) @ x.astype(complex)


def n_onesided(NFFT):
    return NFFT // 2 + 1 if NFFT % 2 == 0 else (NFFT + 1) // 2
