"""Linear-prediction reference algebra written from the textbook definitions.

Conventions (those of the library, fixed by probing and by the property statements):
  Hermitian Toeplitz T[i,j] = r[i-j], r[-m] = conj(r[m]);
  prediction polynomial [1, a_1..a_p] with T [1,a]^T = [P,0..0]^T;
  step-up  a_m = [a_{m-1}, 0] + k_m * conj(reverse([a_{m-1}, 0]))  (so a_m[m] = k_m);
  P_m = P_{m-1} (1 - |k_m|^2)."""
import itertools
import numpy as np


def toeplitz(r):
    r = np.asarray(r)
    p = len(r)
    T = np.zeros((p, p), dtype=complex if np.iscomplexobj(r) else float)
    for i in range(p):
        for j in range(p):
            T[i, j] = r[i - j] if i >= j else np.conj(r[j - i])
    return T


def general_toeplitz(T0, TC, TR):
    """T[i,j] = TC[i-j-1] below the diagonal (first column), TR[j-i-1] above (first row)."""
    M = len(TC)
    T = np.zeros((M + 1, M + 1), dtype=complex)
    for i in range(M + 1):
        for j in range(M + 1):
            if i == j:
                T[i, j] = T0
            elif i > j:
                T[i, j] = TC[i - j - 1]
            else:
                T[i, j] = TR[j - i - 1]
    return T


def stepup(k):
    """Reflection coefficients -> prediction polynomial with leading 1."""
    k = np.asarray(k)
    a = np.ones(1, dtype=complex if np.iscomplexobj(k) else float)
    for km in k:
        ext = np.concatenate([a, [0]])
        a = ext + km * np.conj(ext[::-1])
    return a


def stepup_all(k):
    out = []
    k = np.asarray(k)
    a = np.ones(1, dtype=complex if np.iscomplexobj(k) else float)
    for km in k:
        ext = np.concatenate([a, [0]])
        a = ext + km * np.conj(ext[::-1])
        out.append(a)
    return out


def stepdown(a):
    """Prediction polynomial (leading 1) -> reflection coefficients (textbook step-down)."""
    a = np.asarray(a, dtype=complex if np.iscomplexobj(a) else float)
    p = len(a) - 1
    k = np.zeros(p, dtype=a.dtype)
    cur = a.copy()
    for m in range(p, 0, -1):
        km = cur[m]
        k[m - 1] = km
        den = 1.0 - abs(km) ** 2
        if m > 1:
            nxt = (cur[:m] - km * np.conj(cur[m:0:-1])) / den
            cur = nxt
    return k


def rc2ac(k, r0):
    """Autocorrelation lags 0..p implied by reflection coefficients and r0."""
    k = np.asarray(k)
    p = len(k)
    cplx = np.iscomplexobj(k)
    r = np.zeros(p + 1, dtype=complex if cplx else float)
    r[0] = r0
    a = np.ones(1, dtype=r.dtype)
    P = float(r0)
    for m in range(1, p + 1):
        km = k[m - 1]
        s = 0.0
        for j in range(1, m):
            s = s + a[j] * r[m - j]
        r[m] = -km * P - s
        ext = np.concatenate([a, [0]])
        a = ext + km * np.conj(ext[::-1])
        P = P * (1.0 - abs(km) ** 2)
    return r


def err_from_rc(k, r0):
    return float(r0) * float(np.prod(1.0 - np.abs(np.asarray(k)) ** 2))


def kappa(k):
    return float(np.prod(1.0 / (1.0 - np.abs(np.asarray(k)) ** 2))) if len(k) else 1.0


def solve_normal(r, q=None):
    """Dense solution of the order-q Yule-Walker equations: returns a (without leading 1), P."""
    r = np.asarray(r)
    p = len(r) - 1 if q is None else q
    if p == 0:
        return np.zeros(0, dtype=r.dtype), float(np.real(r[0]))
    T = toeplitz(r[:p])
    a = np.linalg.solve(T, -r[1:p + 1])
    P = np.real(r[0] + np.sum(a * np.conj(r[1:p + 1])))
    return a, float(P)


def rc_from_ac_dense(r):
    """k_m = last coefficient of the order-m dense solution."""
    p = len(r) - 1
    out = []
    for m in range(1, p + 1):
        a, _ = solve_normal(r, m)
        out.append(a[-1])
    return np.array(out)


def max_root(a):
    """Largest root modulus of the polynomial [1, a_1..a_p] (companion eigenvalues)."""
    a = np.asarray(a)
    p = len(a) - 1
    if p == 0:
        return 0.0
    if not np.all(np.isfinite(a)):
        return float('inf')
    C = np.zeros((p, p), dtype=complex)
    C[0, :] = -a[1:]
    for i in range(1, p):
        C[i, i - 1] = 1.0
    return float(np.max(np.abs(np.linalg.eigvals(C))))


# ----------------------------------------------------------------- reflection-coefficient alphabets
RC_REAL = [-0.9, -0.5, 0.0, 0.5, 0.9]
RC_CPLX = [0.5 + 0j, -0.5j, 0.6 + 0.6j, 0j, -0.9 + 0j]


def rc_exhaustive(p, cplx):
    alpha = RC_CPLX if cplx else RC_REAL
    for t in itertools.product(alpha, repeat=p):
        yield np.array(t, dtype=complex if cplx else float)


def rc_families(p, cplx=False):
    """Structured families for larger orders: all equal c, alternating +-c, single non-zero at j."""
    out = []
    for c in (0.3, 0.9, 0.98):
        cc = c * np.exp(0.7j) if cplx else c
        out.append(('equal%g' % c, np.full(p, cc, dtype=complex if cplx else float)))
        out.append(('alt%g' % c, np.array([cc * (-1) ** i for i in range(p)], dtype=complex if cplx else float)))
        for j in range(p):
            v = np.zeros(p, dtype=complex if cplx else float)
            v[j] = cc
            out.append(('single%g@%d' % (c, j), v))
    return out
