"""Defect models for open known findings: each is a predicate
model(clause, feats, point, observed, expected, ctx) -> bool that is True only when the
observed output is exactly what the recorded defective behaviour predicts for this point."""
import numpy as np
