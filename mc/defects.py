"""Defect models for open known findings: each is a predicate
model(clause, feats, point, observed, expected, ctx) -> bool that is True only when the
observed output is exactly what the recorded defective behaviour predicts for this point."""
import numpy as np


def arma_truncated_myw(clause, feats, point, obs, exp, ctx):
    """arma_estimate truncates the modified Yule-Walker vector to `lag` values instead of lag-Q+P
    (arma.py: Y.resize(lag)).  For P <= 4 (Marple solver) and lag - P <= P the covariance fit has no more
    equations than unknowns, its residual is zero and the recursion divides by it: the MA part and the
    variance come out non-finite.  Matches only that situation: counts are right, output non-finite."""
    P, Q, lag = int(point['P']), int(point['Q']), int(point['lag'])
    if not (P <= 4 and lag - P <= P and P != Q):
        return False
    na, nb, mr, rho = obs
    nonfinite = not np.isfinite(np.asarray(complex(rho) if not isinstance(rho, str) else np.nan))
    return int(na) == P and int(nb) == Q and nonfinite
