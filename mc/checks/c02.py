"""C02  Every estimator puts spectral values on the frequency axis it reports.  Engine EX."""
import math
import numpy as np

from .. import alphabet as A
from .. import classes as C
from ..core import close

PROP = 'C02'
USES_MTM = True
RULE = ('EX engine: 12 estimator classes x real/complex x data length N (even/odd) x NFFT ladder (None, nextpow2, even, odd, prime) filtered by admissibility '
        'x sampling frequency x model orders x EVERY tone bin k of the NFFT grid (complex exponentials at positive and negative frequencies; real sinusoids at '
        'every bin with 4/N <= k/NFFT <= 1/2-4/N); data = unit tone + 1e-3 * fixed Weyl sequence.  quick: all points within 2 deviations of the default '
        'configuration; thorough: full product.  Checks: psd real and finite, len(psd) == len(frequencies()) == NFFT/2+1 | (NFFT+1)/2 | NFFT, frequencies == '
        'k*sampling/NFFT, argmax at the tone bin within the per-estimator bin tolerance.  Distinct = digests of psd vectors')
ASSUMPTIONS = ['tone data carry a fixed 1e-3 perturbation so that AR/subspace estimators are not handed exactly singular data',
               'peak tolerance (complex tone): 0 bins periodogram, correlogram, covariance, modified covariance, MUSIC, EV; 1 bin Burg, Yule-Walker, ARMA, minimum variance; ceil(NW*NFFT/N) multitaper',
               'peak tolerance (real sinusoid): ceil(h*NFFT/N)+1 bins with h = 2 (Hann periodogram), 2N/(2 lag+1) (correlogram), 1 (AR, MV, MUSIC/EV), NW (multitaper); MA exempt',
               'orders below N/2; real sinusoids need AR order >= 2 and subspace dimension 2']

EPS = 1e-3
ORDERS = {
    'Periodogram': [dict(window='hann'), dict(window='rectangular')],
    'pcorrelogram': [dict(lag=6), dict(lag=4), dict(lag=11, structural=True), dict(lag=7, structural=True)],
    'pburg': [dict(order=4), dict(order=2), dict(order=6), dict(order=1), dict(order=3), dict(order=4, criteria='AIC'), dict(order=6, criteria='MDL')],
    'pyule': [dict(order=4), dict(order=2), dict(order=6), dict(order=1), dict(order=3)],
    'pcovar': [dict(order=4), dict(order=2), dict(order=6), dict(order=1), dict(order=3)],
    'pmodcovar': [dict(order=4), dict(order=2), dict(order=6), dict(order=1), dict(order=3)],
    'parma': [dict(P=2, Q=2, lag=8), dict(P=1, Q=1, lag=6), dict(P=3, Q=2, lag=9), dict(P=5, Q=2, lag=11), dict(P=2, Q=3, lag=9)],
    'pma': [dict(Q=3, M=8), dict(Q=2, M=6)],
    'pminvar': [dict(order=4), dict(order=3), dict(order=6)],
    'pmusic': [dict(IP=4), dict(IP=3), dict(IP=6)],
    'pev': [dict(IP=4), dict(IP=3), dict(IP=6)],
    'MultiTapering': [dict(NW=2.5, method='adapt'), dict(NW=2, method='eigen'), dict(NW=2.5, method='unity')],
}
NS = [16, 17, 12, 15, 24, 25, 9, 8]


def bounds(tier):
    return {'classes': C.NAMES, 'N': NS if tier == 'thorough' else '16 (default) + deviations', 'NFFT': 'None, nextpow2, N+1, N+2, 2N-1, 2N, 2N+1, 3N, 4N+1, next prime (admissible ones)',
            'sampling': A.FS, 'sample_dtype': 'float64/complex128 + float32/complex64 (quick: a deviation; thorough: N in %s at the first sampling rate)' % NS[:2], 'tone_bins': 'every bin', 'deviation_bound': 2 if tier == 'quick' else 'full product',
            'orders': {k: len(v) for k, v in ORDERS.items()}}


def expected_clauses(tier):
    return ['real_finite', 'length', 'axis', 'peak_complex', 'peak_real']


def nfft_ladder(N):
    out = [None, 'nextpow2']
    for v in (N + 1, N + 2, 2 * N - 1, 2 * N, 2 * N + 1, 3 * N, 4 * N + 1, A.next_prime(N + 3)):
        if v not in out:
            out.append(v)
    return out


def configs(cls, tier):
    dims = {'N': NS, 'NFFT': None, 'fs': A.FS, 'o': list(range(len(ORDERS[cls]))), 'cplx': [True, False], 'single': [False, True]}
    if tier == 'quick':
        # NFFT ladder depends on N: enumerate deviations over index positions
        dims['NFFT'] = list(range(10))
        for pt in C.deviations(dims, 2):
            lad = nfft_ladder(pt['N'])
            if pt['NFFT'] >= len(lad):
                continue
            yield dict(N=pt['N'], NFFT=lad[pt['NFFT']], fs=pt['fs'], o=ORDERS[cls][pt['o']], cplx=pt['cplx'], single=pt['single'])
    else:
        for N in NS:
            for nf in nfft_ladder(N):
                for fs in A.FS:
                    for o in ORDERS[cls]:
                        for cplx in (True, False):
                            yield dict(N=N, NFFT=nf, fs=fs, o=o, cplx=cplx, single=False)
                            if N in NS[:2] and fs == A.FS[0]:
                                yield dict(N=N, NFFT=nf, fs=fs, o=o, cplx=cplx, single=True)


def shards(tier):
    out = []
    for cls in C.NAMES:
        if tier == 'quick':
            out.append((cls, None))
        else:
            for N in NS:
                out.append((cls, N))
    return out


def in_domain(cls, N, NFFT, o, cplx):
    nf = C.resolve_nfft(NFFT, N)
    if cls == 'pcorrelogram' and o.get('structural'):
        return None if o['lag'] < N else 'lag>=N'       # lag window longer than the grid: values are not judged, only real / finite / length / axis
    if nf < C.min_nfft(cls, N, o):
        return 'nfft_not_admissible'
    if cls in ('Periodogram', 'MultiTapering') and nf < N:
        return 'nfft_not_admissible'
    order = o.get('order', o.get('P', o.get('IP', o.get('M', 0))))
    if o.get('criteria') and not cplx:
        # the order-selection rule stops at the first stage that does not lower the criterion: a real sinusoid near fs/4 has a first
        # reflection coefficient of ~0 and is legitimately given order 0; a complex exponential always has |k1| ~ 1
        return 'greedy_order_selection_on_real_sinusoids'
    if cls == 'pminvar':
        if not (2 * order <= nf):
            return 'nfft_not_admissible'
    if order >= N / 2.0:
        return 'order_not_below_N/2'
    if cls == 'pcorrelogram' and o['lag'] >= N:
        return 'lag>=N'
    if cls == 'parma' and not (o['lag'] - o['Q'] > o['P'] and o['lag'] + 2 * o['P'] - o['Q'] <= N and 2 * o['Q'] < N - o['P']):
        return 'arma_domain'
    if cls == 'pma' and not (0 < o['Q'] < o['M'] < N):
        return 'ma_domain'
    if cls == 'MultiTapering' and not (o['NW'] < N / 2.0):
        return 'NW>=N/2'
    return None


def run_shard(desc, R, tier):
    cls, Nsel = desc
    for cfg in configs(cls, tier):
        if Nsel is not None and cfg['N'] != Nsel:
            continue
        N, NFFT, o, cplx = cfg['N'], cfg['NFFT'], cfg['o'], cfg['cplx']
        why = in_domain(cls, N, NFFT, o, cplx)
        if why:
            R.point(None, indomain=False)
            R.skip(why)
            continue
        nf = C.resolve_nfft(NFFT, N)
        if cplx:
            bins = range(nf)
        else:
            bins = [k for k in range(nf // 2 + 1) if 4.0 / N <= k / float(nf) <= 0.5 - 4.0 / N]
            if not bins:
                bins = [None]          # structural clauses only (constant + noise data)
        if cfg['single'] or o.get('structural'):
            bins = [None]              # single-precision records: structural clauses on a noise-like record (a 60 dB tone is not resolvable by a float32 recursion)
        for k in bins:
            eval_point(dict(cls=cls, N=N, NFFT=NFFT, fs=cfg['fs'], o=o, cplx=cplx, k=k, single=cfg['single']), R)


def tone(N, nf, k, cplx):
    n = np.arange(N)
    if cplx and k is None:
        return A.eta(N, True) + 0.3 * np.exp(0.9j * n + 0.2j)
    if cplx:
        return np.exp(2j * np.pi * ((k * n) % nf) / nf + 0.3j) + EPS * A.eta(N, True)
    if k is None:
        return A.weyl(N, 2) + 0.3 * np.cos(0.9 * n + 0.2)      # noise-like record: structural clauses only
    return np.cos(2 * np.pi * ((k * n) % nf) / nf + 0.3) + EPS * A.eta(N)


def peak_tolerance(cls, o, N, nf, cplx):
    if cls == 'pma':
        return None
    if cplx:
        if cls in ('Periodogram', 'pcorrelogram', 'pcovar', 'pmodcovar', 'pmusic', 'pev'):
            return 0
        if cls in ('pburg', 'pyule', 'parma', 'pminvar'):
            return 1
        return int(math.ceil(o['NW'] * nf / float(N)))
    if cls == 'Periodogram':
        h = 2.0
    elif cls == 'pcorrelogram':
        h = 2.0 * N / (2 * o['lag'] + 1)
    elif cls == 'MultiTapering':
        h = o['NW']
    else:
        h = 1.0
    return int(math.ceil(h * nf / float(N))) + 1


def eval_point(pt, R):
    cls, N, NFFT, fs, o, cplx, k = pt['cls'], int(pt['N']), pt['NFFT'], float(pt['fs']), pt['o'], bool(pt['cplx']), pt['k']
    nf = C.resolve_nfft(NFFT, N)
    x = tone(N, nf, k, cplx)
    if pt.get('single'):
        x = x.astype(np.complex64 if cplx else np.float32)      # single-precision record (IQ capture / float32 audio)
    oo = dict(o)
    if cls in ('pmusic', 'pev'):
        oo['NSIG'] = 1 if cplx else 2
    feats = {'cls': cls, 'dtype': ('complex' if cplx else 'real') + ('-single' if pt.get('single') else ''), 'nfft': 'odd' if nf % 2 else 'even'}
    R.point(pt)
    R.calls()
    try:
        obj = C.make(cls, x, NFFT=NFFT, sampling=fs, scale_by_freq=False, **oo)
        psd = np.asarray(obj.psd)
        fr = np.asarray(obj.frequencies(), dtype=float)
    except Exception as e:
        R.viol('real_finite', dict(feats, exc=type(e).__name__), pt, repr(e), None, 'estimator raised inside its domain')
        return
    isreal = (not np.iscomplexobj(psd)) or float(np.max(np.abs(psd.imag))) == 0.0
    R.check(isreal and np.all(np.isfinite(psd)), 'real_finite', feats, pt, psd, 'real finite', 'default PSD is not real and finite', outs=(psd,))
    L = nf if cplx else (nf // 2 + 1 if nf % 2 == 0 else (nf + 1) // 2)
    R.check(len(psd) == L and len(fr) == L and obj.NFFT == nf, 'length', dict(feats, nfftarg=str(NFFT) if not isinstance(NFFT, int) else 'int'), pt,
            [len(psd), len(fr), obj.NFFT], [L, L, nf], 'len(psd), len(frequencies()) or NFFT differ from the requested grid')
    if len(fr) == L:
        ax = np.arange(L) * fs / nf
        R.check(close(fr, ax, 1e-12, 0.0), 'axis', feats, pt, fr, ax, 'frequencies() != k*sampling/NFFT')
    tol = peak_tolerance(cls, o, N, nf, cplx)
    if tol is None or k is None or len(psd) != L or not isreal:
        return
    if not cplx and cls in C.AR_LIKE + ['pminvar'] and o['order'] < 2:
        R.skip('real_sinusoid_needs_order>=2')
        return
    if not cplx and cls == 'parma' and o['P'] < 2:
        R.skip('real_sinusoid_needs_order>=2')
        return
    am = int(np.argmax(np.real(psd)))
    if cplx:
        dist = min((am - k) % nf, (k - am) % nf)
        R.check(dist <= tol, 'peak_complex', dict(feats, tol=tol), pt, am, k,
                'maximum is not at the entry whose frequency is that of the tone bin (distance %d > %d bins)' % (dist, tol))
    else:
        dist = abs(am - k)
        R.check(dist <= tol, 'peak_real', dict(feats, tol='h'), pt, am, k,
                'real sinusoid does not peak within the main-lobe half-width (distance %d > %d bins)' % (dist, tol))
