"""C04  Frequency-shift covariance and conjugate symmetry of two-sided spectra.  Engine EX (metamorphic)."""
import itertools
import numpy as np

from .. import alphabet as A
from .. import classes as C
from ..core import close, relerr
from . import c03

PROP = 'C04'
USES_MTM = True
RULE = ('EX engine (metamorphic): 12 estimator classes x every complex data vector of the lattice {0,1,-1,i,1+i}^N (short-record estimators) and of the fixed '
        'noise-like / tone families x NFFT in {N, N+1, 2N, 2N+1} (even and odd) x EVERY integer shift m in 0..NFFT-1: P[x e^{2 pi i m n/NFFT}] == roll(P[x], m); '
        'conjugation mirrors the bins; real data: one-sided == 2 x first half of the two-sided estimate of the same samples declared complex (AR/MA/ARMA, MV, '
        'multitaper); conj(x[::-1]) leaves periodogram, correlogram, Yule-Walker, Burg, modified covariance, multitaper, MV unchanged. Distinct = digests of P[x]')
ASSUMPTIONS = ['domain as in C03 (well-posed problems; rank-deficient data matrices and model poles on the frequency grid excluded)',
               'tolerance 1e-7 relative to the largest PSD value; MUSIC / EV pseudo-spectra are compared through 1/P (their peaks are divisions by ~0)']
RTOL = 1e-7

CONFIGS = {
    'Periodogram': [dict(window='hann'), dict(window='rectangular')],
    'pcorrelogram': [dict(lag=3)],
    'pburg': [dict(order=2), dict(order=3)],
    'pyule': [dict(order=2), dict(order=3)],
    'pcovar': [dict(order=2), dict(order=3)],
    'pmodcovar': [dict(order=2), dict(order=3)],
    'parma': [dict(P=2, Q=2, lag=6)],
    'pma': [dict(Q=2, M=5)],
    'pminvar': [dict(order=3), dict(order=4)],
    'pmusic': [dict(IP=4, NSIG=2), dict(IP=4, NSIG=None)],
    'pev': [dict(IP=4, NSIG=2)],
    'MultiTapering': [dict(NW=2.5, method='adapt'), dict(NW=2, method='eigen'), dict(NW=2, method='unity')],
}
SHORT_OK = {'Periodogram': dict(window='hann'), 'pcorrelogram': dict(lag=2), 'pburg': dict(order=1), 'pyule': dict(order=1), 'pmodcovar': dict(order=1)}
HALF = ['pburg', 'pyule', 'pcovar', 'pmodcovar', 'parma', 'pma', 'pminvar', 'MultiTapering']
REVERSAL = ['Periodogram', 'pcorrelogram', 'pyule', 'pburg', 'pmodcovar', 'MultiTapering', 'pminvar']


def bounds(tier):
    q = tier == 'quick'
    return {'classes': C.NAMES, 'families_N': [12, 13] if q else [12, 13, 16], 'lattice': 'ZC5^%d (5 short-record classes)' % (3 if q else 4),
            'NFFT': 'N, N+1, 2N, 2N+1', 'shifts': 'every m in 0..NFFT-1', 'real_lattice': 'ZR(1)^%d' % (5 if q else 6)}


def expected_clauses(tier):
    return ['shift', 'conj', 'half', 'reversal']


def shards(tier):
    q = tier == 'quick'
    out = []
    for cls in C.NAMES:
        for N in ([12, 13] if q else [12, 13, 16]):
            out.append(('fam', cls, N))
    for cls in SHORT_OK:
        out.append(('lat', cls, 3 if q else 4))
        out.append(('rlat', cls, 5 if q else 6))
    return out


def run_shard(desc, R, tier):
    kind, cls, N = desc
    if kind == 'fam':
        for name, x in A.gen_cplx(N) + A.tones_cplx(N):
            for o in CONFIGS[cls]:
                for nf in (N, N + 1, 2 * N, 2 * N + 1):
                    eval_point({'kind': 'cplx', 'cls': cls, 'o': o, 'x': x, 'NFFT': nf, 'name': name}, R)
        for name, x in A.gen_real(N) + A.tones_real(N):
            for o in CONFIGS[cls]:
                for nf in (N, N + 1, 2 * N):
                    eval_point({'kind': 'real', 'cls': cls, 'o': o, 'x': x, 'NFFT': nf, 'name': name}, R)
    elif kind == 'lat':
        o = SHORT_OK[cls]
        for s in itertools.product(A.ZC5, repeat=N):
            x = np.array(s, dtype=complex)
            for nf in (N, N + 1, 2 * N + 1):
                eval_point({'kind': 'cplx', 'cls': cls, 'o': o, 'x': x, 'NFFT': nf}, R)
    else:
        o = SHORT_OK[cls]
        for s in itertools.product(A.ZR(1), repeat=N):
            x = np.array(s, dtype=float)
            for nf in (N, N + 1):
                eval_point({'kind': 'real', 'cls': cls, 'o': o, 'x': x, 'NFFT': nf}, R)


def _psd(cls, x, nf, o):
    obj = C.make(cls, x, NFFT=nf, sampling=1.0, scale_by_freq=False, **o)
    return np.asarray(obj.psd)


def _cmp(cls, a, b):
    """(ok, err) for two PSD vectors; pseudo-spectra through their inverse."""
    a = np.asarray(a)
    b = np.asarray(b)
    if a.shape != b.shape:
        return False, None
    if cls in ('pmusic', 'pev'):
        a, b = 1.0 / a, 1.0 / b
    return close(a, b, RTOL, 0.0), relerr(a, b)


def eval_point(pt, R):
    cls, o, x, nf = pt['cls'], pt['o'], np.asarray(pt['x']), int(pt['NFFT'])
    N = len(x)
    why = c03.admissible('class:' + cls, dict(o, NFFT=nf), x, minlen=0)
    if why is None and nf < C.min_nfft(cls, N, o):
        why = 'nfft_not_admissible'
    if why:
        R.point(pt, indomain=False)
        R.skip(why)
        return
    nm = pt.get('name') or ''
    if cls in ('parma', 'pma') and (nm.endswith('+0') or nm.endswith('+0.001') or nm in ('ramp', 'cramp', 'const')):
        R.point(pt, indomain=False)
        R.skip('arma_needs_noise_like_data')       # exactly predictable records give a zero residual (degenerate for ARMA/MA)
        return
    feats = {'cls': cls, 'nfft': 'odd' if nf % 2 else 'even'}
    R.calls()
    try:
        P0 = _psd(cls, x, nf, o)
    except Exception as e:
        R.point(pt)
        R.viol('shift' if pt['kind'] == 'cplx' else 'half', dict(feats, exc=type(e).__name__), pt, repr(e), None, 'estimator raised inside its domain')
        return
    if not np.all(np.isfinite(P0)):
        R.point(pt, indomain=False)
        R.skip('psd_not_finite(model pole / vanishing projection on the grid)')
        return
    R.point(pt)
    R.dig(P0)
    n = np.arange(N)
    if pt['kind'] == 'cplx':
        shifts = [int(pt['m'])] if 'm' in pt else range(nf)
        for m in shifts:
            if m == 0 and 'm' not in pt:
                continue
            ptm = dict(pt, m=m)
            R.calls()
            try:
                Pm = _psd(cls, x * np.exp(2j * np.pi * ((m * n) % nf) / nf), nf, o)
            except Exception as e:
                R.viol('shift', dict(feats, exc=type(e).__name__), ptm, repr(e), None, 'estimator raised on the modulated data')
                continue
            ok, err = _cmp(cls, Pm, np.roll(P0, m))
            R.check(ok, 'shift', feats, ptm, Pm, np.roll(P0, m), 'modulating by bin m does not rotate the two-sided estimate by m bins', err=err)
        if 'm' not in pt:
            R.calls()
            try:
                Pc = _psd(cls, np.conj(x), nf, o)
                exp = P0[(-np.arange(nf)) % nf]
                ok, err = _cmp(cls, Pc, exp)
                R.check(ok, 'conj', feats, pt, Pc, exp, 'conjugating the data does not mirror the estimate (k <-> -k)', err=err)
            except Exception as e:
                R.viol('conj', dict(feats, exc=type(e).__name__), pt, repr(e), None, 'estimator raised on the conjugated data')
    else:
        if cls in HALF:
            R.calls()
            try:
                P2 = _psd(cls, x.astype(complex), nf, o)
                L = len(P0)
                exp = 2.0 * P2[:L]
                ok, err = _cmp(cls, P0, exp)
                R.check(ok and L == (nf // 2 + 1 if nf % 2 == 0 else (nf + 1) // 2), 'half', feats, pt, P0, exp,
                        'one-sided estimate != 2 x first half of the two-sided estimate of the same samples declared complex', err=err)
            except Exception as e:
                R.viol('half', dict(feats, exc=type(e).__name__), pt, repr(e), None, 'estimator raised on real data declared complex')
    if cls in REVERSAL:
        R.calls()
        try:
            Pr = _psd(cls, np.conj(x[::-1]).copy(), nf, o)
            ok, err = _cmp(cls, Pr, P0)
            R.check(ok, 'reversal', dict(feats, dtype=pt['kind']), pt, Pr, P0, 'conjugated time-reversed data give a different spectrum', err=err)
        except Exception as e:
            R.viol('reversal', dict(feats, exc=type(e).__name__), pt, repr(e), None, 'estimator raised on the reversed data')
