"""C09  Correlation estimates match their definition and are consistent.  Engine EX (pairs trie)."""
import itertools
import numpy as np

from .. import alphabet as A
from ..core import close, relerr
from ..ref import corr as rc

PROP = 'C09'
RULE = ('EX engine: every pair (x, y) of sequences over {-1,0,1} (float and int dtype), over {0,1,-1,i,1+i} and over {1e-6,1,1e6}, of equal and '
        'unequal lengths up to the bound, x every maxlags in 0..N-1 and None x every norm, for CORRELATION (cross and auto) and xcorr (ndarray and list '
        'input); every data-matrix method x every order m in 1..N-1 for corrmtx; each result compared with textbook double-loop sums. '
        'Distinct/non-trivial = distinct digests of returned arrays')
ASSUMPTIONS = ['coeff normalisation is asserted for the autocorrelation of non-zero data only (as the property states)',
               'xcorr is exercised on its domain (equal lengths, maxlags <= N-1); rejecting unequal lengths is not a violation',
               'tolerance rtol=1e-9 (+1e-12 of the data energy absolute)']
RTOL = 1e-9
SINGLE_RTOL = 1e-5        # float32 / complex64 records may be correlated in single precision
NORMS = ['biased', 'unbiased', None]


def bounds(tier):
    if tier == 'quick':
        return {'cross_real': 'ZR(1): Nx,Ny in 1..3', 'cross_complex': 'ZC5: Nx,Ny in 1..2', 'auto': 'ZR(1)^N N<=5, ZI(1)^N N<=4, ZC5^N N<=3, DYN^N N<=3',
                'xcorr': 'ZR(1)^N x ZR(1)^N N<=3, ZC5 N<=2', 'corrmtx': 'ZR(1)^N, ZC5^N, N<=4, all m, 5 methods'}
    return {'cross_real': 'ZR(1): Nx,Ny in 1..4', 'cross_complex': 'ZC5: Nx,Ny in 1..3', 'auto': 'ZR(1)^N N<=7, ZI(1)^N N<=5, ZC5^N N<=5, DYN^N N<=5',
            'xcorr': 'ZR(1)^N x ZR(1)^N N<=4, ZC5 N<=3', 'corrmtx': 'ZR(1)^N N<=6, ZC5^N N<=5, all m, 5 methods'}


def expected_clauses(tier):
    return ['cross', 'auto', 'auto_psd', 'xcorr', 'xcorr_lags', 'corrmtx', 'gram']


def _alpha(name):
    return {'ZR1': (A.ZR(1), float), 'ZI1': ([-1, 0, 1], np.int64), 'ZC5': (A.ZC5, complex), 'DYN': (A.DYN, float)}[name]


def shards(tier):
    q = tier == 'quick'
    out = []
    nr = 3 if q else 4
    ncx = 2 if q else 3
    for nx in range(1, nr + 1):
        for ny in range(1, nr + 1):
            out.append(('cross', 'ZR1', nx, ny))
    for nx in range(1, ncx + 1):
        for ny in range(1, ncx + 1):
            out.append(('cross', 'ZC5', nx, ny))
    for nx in range(1, ncx + 1):
        for ny in range(1, ncx + 1):
            out.append(('mixed', nx, ny))
    out.append(('cross', 'ZI1', 2, 3))
    out.append(('cross', 'ZI1', 3, 2))
    for name, nmax in (('ZR1', 5 if q else 7), ('ZI1', 4 if q else 5), ('ZC5', 3 if q else 5), ('DYN', 3 if q else 5)):
        for n in range(1, nmax + 1):
            out.append(('auto', name, n))
    for name, nmax in (('ZR1', 3 if q else 4), ('ZC5', 2 if q else 3)):
        for n in range(1, nmax + 1):
            out.append(('xcorr', name, n))
    for name, nmax in (('ZR1', 4 if q else 6), ('ZC5', 4 if q else 5), ('ZI1', 3 if q else 4)):
        for n in range(2, nmax + 1):
            out.append(('corrmtx', name, n))
    for n in ([6, 9] if q else [6, 9, 16, 33]):
        out.append(('pcm', n))
        out.append(('single', n))
    for n in ([600] if q else [513, 600, 1025]):
        out.append(('long', n))       # long records: an implementation may switch to an FFT-based algorithm
    return out


def run_shard(desc, R, tier):
    kind = desc[0]
    if kind == 'cross':
        _, name, nx, ny = desc
        alpha, dt = _alpha(name)
        N = max(nx, ny)
        for sx in itertools.product(alpha, repeat=nx):
            x = np.array(sx, dtype=dt)
            for sy in itertools.product(alpha, repeat=ny):
                y = np.array(sy, dtype=dt)
                for ml in list(range(N)) + [None]:
                    for norm in NORMS:
                        eval_point({'kind': 'cross', 'x': x, 'y': y, 'maxlags': ml, 'norm': norm}, R)
    elif kind == 'mixed':
        # real x with complex y and complex x with real y (mixed-type cross-correlation)
        _, nx, ny = desc
        N = max(nx, ny)
        for sx in itertools.product(A.ZR(1), repeat=nx):
            for sy in itertools.product(A.ZC5, repeat=ny):
                x, y = np.array(sx, dtype=float), np.array(sy, dtype=complex)
                for ml in list(range(N)) + [None]:
                    for norm in NORMS:
                        eval_point({'kind': 'cross', 'x': x, 'y': y, 'maxlags': ml, 'norm': norm}, R)
                        eval_point({'kind': 'cross', 'x': y, 'y': x, 'maxlags': ml, 'norm': norm}, R)
                        if nx == ny:
                            eval_point({'kind': 'xcorr', 'x': x, 'y': y, 'maxlags': ml, 'norm': norm, 'aslist': False}, R)
                            eval_point({'kind': 'xcorr', 'x': y, 'y': x, 'maxlags': ml, 'norm': norm, 'aslist': False}, R)
    elif kind == 'auto':
        _, name, n = desc
        alpha, dt = _alpha(name)
        for sx in itertools.product(alpha, repeat=n):
            x = np.array(sx, dtype=dt)
            for ml in list(range(n)) + [None]:
                for norm in NORMS + ['coeff']:
                    eval_point({'kind': 'auto', 'x': x, 'maxlags': ml, 'norm': norm}, R)
    elif kind == 'xcorr':
        _, name, n = desc
        alpha, dt = _alpha(name)
        for sx in itertools.product(alpha, repeat=n):
            x = np.array(sx, dtype=dt)
            for sy in itertools.product(alpha, repeat=n):
                y = np.array(sy, dtype=dt)
                for ml in list(range(n)) + [None]:
                    for norm in NORMS:
                        eval_point({'kind': 'xcorr', 'x': x, 'y': y, 'maxlags': ml, 'norm': norm, 'aslist': False}, R)
                    if ml in (None, 0):
                        eval_point({'kind': 'xcorr', 'x': x, 'y': y, 'maxlags': ml, 'norm': 'biased', 'aslist': True}, R)
            for ml in list(range(n)) + [None]:
                for norm in NORMS + ['coeff']:
                    eval_point({'kind': 'xcorr', 'x': x, 'y': None, 'maxlags': ml, 'norm': norm, 'aslist': False}, R)
    elif kind in ('pcm', 'single'):
        n = desc[1]
        if kind == 'pcm':
            recs = A.pcm(n) + A.pcm64(n)
        else:
            base = A.gen_real(n)[:2] + A.gen_cplx(n)[:2]
            recs = A.single(A.gen_real(n), 2) + A.single(A.gen_cplx(n), 2) + A.strided(A.gen_real(n), 1) + A.strided(A.gen_cplx(n), 1) + A.extreme(base, 4)
        for nx, x in recs:
            for ml in [0, 1, n // 2, n - 1, None]:
                for norm in NORMS + ['coeff']:
                    eval_point({'kind': 'auto', 'x': x, 'maxlags': ml, 'norm': norm, 'name': nx}, R)
                    eval_point({'kind': 'xcorr', 'x': x, 'y': None, 'maxlags': ml, 'norm': norm, 'aslist': False, 'name': nx}, R)
            for m in (1, 2, n // 2):
                for meth in ('autocorrelation', 'prewindowed', 'postwindowed', 'covariance', 'modified'):
                    eval_point({'kind': 'corrmtx', 'x': x, 'm': m, 'method': meth, 'name': nx}, R)
            for ny, y in recs:
                if ny != nx and y.dtype == x.dtype:
                    for ml in [0, 2, None]:
                        for norm in NORMS:
                            eval_point({'kind': 'cross', 'x': x, 'y': y[:n - 2], 'maxlags': ml, 'norm': norm, 'name': nx + '/' + ny}, R)
                            eval_point({'kind': 'xcorr', 'x': x, 'y': y, 'maxlags': ml, 'norm': norm, 'aslist': False, 'name': nx + '/' + ny}, R)
    elif kind == 'long':
        n = desc[1]
        recs = A.gen_real(n)[:1] + A.gen_cplx(n)[:2]
        for nx, x in recs:
            for ml in [0, 3, None]:
                for norm in ['biased', 'unbiased']:
                    eval_point({'kind': 'auto', 'x': x, 'maxlags': ml, 'norm': norm, 'name': nx}, R)
                    eval_point({'kind': 'xcorr', 'x': x, 'y': None, 'maxlags': ml, 'norm': norm, 'aslist': False, 'name': nx}, R)
            y = recs[-1][1][::-1] * (0.5 - 0.25j)
            for ml in [2, None]:
                eval_point({'kind': 'cross', 'x': x, 'y': y, 'maxlags': ml, 'norm': 'biased', 'name': nx + '/rev'}, R)
                eval_point({'kind': 'xcorr', 'x': x, 'y': y, 'maxlags': ml, 'norm': 'unbiased', 'aslist': False, 'name': nx + '/rev'}, R)
    elif kind == 'corrmtx':
        _, name, n = desc
        alpha, dt = _alpha(name)
        for sx in itertools.product(alpha, repeat=n):
            x = np.array(sx, dtype=dt)
            for m in range(1, n):
                for meth in ('autocorrelation', 'prewindowed', 'postwindowed', 'covariance', 'modified'):
                    eval_point({'kind': 'corrmtx', 'x': x, 'm': m, 'method': meth}, R)
    else:
        raise ValueError(desc)


def _prom(a):
    """The mathematical value of integer samples (no wrap-around): promote to float64."""
    return A.prom(a)


def _dt(*arrs):
    if any(np.iscomplexobj(a) for a in arrs if a is not None) and all(np.iscomplexobj(a) for a in arrs if a is not None):
        return 'complex'
    kinds = set('c' if np.iscomplexobj(a) else 'r' for a in arrs if a is not None)
    if len(kinds) == 2:
        return 'mixed'
    if all(np.asarray(a).dtype.kind in 'iu' for a in arrs if a is not None):
        return 'int' if all(np.asarray(a).dtype.itemsize >= 8 for a in arrs if a is not None) else 'narrow-int'
    return 'real'


def eval_point(pt, R):
    import spectrum
    kind = pt['kind']
    if kind in ('cross', 'auto'):
        x = A.layout(pt, pt['x'])
        y = np.asarray(pt['y']) if kind == 'cross' else None
        norm = pt['norm']
        N = max(len(x), len(y)) if y is not None else len(x)
        ml = pt['maxlags']
        mlr = N - 1 if ml is None else int(ml)
        yy = x if y is None else y
        energy = float(np.sum(np.abs(_prom(x)) ** 2) + np.sum(np.abs(_prom(yy)) ** 2))
        feats = {'norm': str(norm), 'dtype': _dt(x, y)}
        sg = A.is_single(x) or A.is_single(yy)
        rtol, atf, ptol = (SINGLE_RTOL, SINGLE_RTOL, 1e-4) if sg else (RTOL, 1e-12, 1e-9)
        if sg:
            feats['dtype'] += '-single'
        if kind == 'cross':
            feats['lens'] = 'x<y' if len(x) < len(y) else ('x>y' if len(x) > len(y) else 'x=y')
        if norm == 'coeff' and not np.any(np.asarray(x) != 0):
            R.point(pt, indomain=False)
            R.skip('coeff_of_zero_data')
            return
        R.point(pt)
        ref = rc.correlation(_prom(x), _prom(yy), mlr, norm)
        R.calls()
        try:
            if y is None:
                obs = np.asarray(spectrum.CORRELATION(x, maxlags=ml, norm=norm))
            else:
                obs = np.asarray(spectrum.CORRELATION(x, y, maxlags=ml, norm=norm))
        except Exception as e:
            R.viol(kind, dict(feats, exc=type(e).__name__), pt, repr(e), ref, 'CORRELATION raised inside its domain')
            return
        atol = atf * max(energy, 1e-300) if norm != 'coeff' else atf
        R.check(close(obs, ref, rtol, atol), kind, feats, pt, obs, ref,
                'CORRELATION != sum_n x[n+k] conj(y[n]) / divisor (shorter input zero padded)', outs=(obs,), err=relerr(obs, ref, atol))
        if kind == 'auto' and norm in ('biased', 'unbiased') and (len(x) <= 4 or pt.get('name')):
            # the same array object given as both arguments, and the arguments left untouched
            R.calls()
            try:
                keep = np.array(x, copy=True)
                obs2 = np.asarray(spectrum.CORRELATION(x, x, maxlags=ml, norm=norm))
                R.check(obs2.shape == obs.shape and close(obs2, ref, rtol, atol) and np.array_equal(keep, x), 'auto', dict(feats, sub='x is y'), pt, obs2, ref,
                        'CORRELATION(x, x) (one object passed twice) != the autocorrelation, or the argument was modified')
            except Exception as e:
                R.viol('auto', dict(feats, sub='x is y', exc=type(e).__name__), pt, repr(e), ref, 'CORRELATION(x, x) raised')
        if kind == 'auto' and norm == 'coeff' and len(obs) > 0:
            R.check(abs(obs[0] - 1.0) <= atf, 'auto', dict(feats, sub='lag0'), pt, obs[0], 1.0, 'coeff autocorrelation is not 1 at lag 0')
        if kind == 'auto' and norm == 'biased' and ml is None and obs.shape == ref.shape:
            r0 = float(np.real(obs[0]))
            m2 = float(np.mean(np.abs(_prom(x)) ** 2))
            ok = abs(r0 - m2) <= ptol * max(m2, 1e-300) and np.all(np.abs(obs) <= r0 * (1 + ptol) + 1e-300)
            T = rc.toeplitz_herm(obs)
            ev = np.linalg.eigvalsh(T) if len(obs) > 0 else np.array([0.0])
            ok = ok and float(ev.min()) >= -ptol * max(r0, 1e-300)
            R.check(ok, 'auto_psd', feats, pt, [r0, float(ev.min())], [m2, 0.0],
                    'biased autocorrelation: r0 != mean|x|^2, |r[k]| > r0 or Toeplitz matrix not positive semi-definite')
    elif kind == 'xcorr':
        x = A.layout(pt, pt['x'])
        y = None if pt['y'] is None else np.asarray(pt['y'])
        yy = x if y is None else y
        norm = pt['norm']
        N = len(x)
        ml = pt['maxlags']
        mlr = N - 1 if ml is None else int(ml)
        feats = {'norm': str(norm), 'dtype': _dt(x, y), 'auto': y is None, 'list': bool(pt.get('aslist'))}
        if norm == 'coeff' and (not np.any(x != 0) or y is not None):
            R.point(pt, indomain=False)
            R.skip('coeff_outside_autocorrelation_of_nonzero_data')
            return
        R.point(pt)
        pos = rc.correlation(_prom(x), _prom(yy), mlr, norm)
        neg = np.conj(rc.correlation(_prom(yy), _prom(x), mlr, norm))
        ref = np.concatenate([neg[:0:-1], pos])
        reflags = np.arange(-mlr, mlr + 1)
        R.calls()
        try:
            ax, ay = (x.tolist(), None if y is None else y.tolist()) if pt.get('aslist') else (x, y)
            if y is None:
                obs, lags = spectrum.xcorr(ax, maxlags=ml, norm=norm)
            else:
                obs, lags = spectrum.xcorr(ax, ay, maxlags=ml, norm=norm)
            obs = np.asarray(obs)
            lags = np.asarray(lags)
        except Exception as e:
            R.viol('xcorr', dict(feats, exc=type(e).__name__), pt, repr(e), ref, 'xcorr raised inside its domain')
            return
        energy = float(np.sum(np.abs(_prom(x)) ** 2) + np.sum(np.abs(_prom(yy)) ** 2))
        sg = A.is_single(x) or A.is_single(yy)
        rtol, atf = (SINGLE_RTOL, SINGLE_RTOL) if sg else (RTOL, 1e-12)
        if sg:
            feats['dtype'] += '-single'
        atol = atf * max(energy, 1e-300) if norm != 'coeff' else atf
        R.check(close(obs, ref, rtol, atol), 'xcorr', feats, pt, obs, ref,
                'xcorr != [conj(r_yx[k]) at -k ... r_xy[k] at +k]', outs=(obs,), err=relerr(obs, ref, atol))
        R.check(lags.shape == reflags.shape and np.array_equal(lags, reflags), 'xcorr_lags', feats, pt, lags, reflags,
                'lags vector is not -maxlags..maxlags')
    elif kind == 'corrmtx':
        x = A.layout(pt, pt['x'])
        m = int(pt['m'])
        meth = pt['method']
        feats = {'method': meth, 'dtype': _dt(x) + ('-single' if A.is_single(x) else '')}
        R.point(pt)
        ref = rc.datamatrix(_prom(x), m, meth)
        R.calls()
        try:
            obs = np.asarray(spectrum.corrmtx(x, m, meth))
        except Exception as e:
            R.viol('corrmtx', dict(feats, exc=type(e).__name__), pt, repr(e), ref, 'corrmtx raised inside its domain')
            return
        R.check(close(obs, ref, RTOL, 0.0), 'corrmtx', feats, pt, obs, ref, 'corrmtx != block definition of the data matrix', outs=(obs, meth),
                err=relerr(obs, ref))
        if meth == 'autocorrelation' and obs.shape == ref.shape:
            N = len(x)
            r = rc.correlation(_prom(x), _prom(x), m, 'biased')
            G = np.conj(obs.T).astype(complex if np.iscomplexobj(obs) else float) @ obs.astype(complex if np.iscomplexobj(obs) else float)
            # (X^H X)[a,b] = sum_i conj(x[i-a]) x[i-b] = N r[a-b] = N T[a,b] with T[i,j] = r[i-j]
            T = rc.toeplitz_herm(r)
            R.check(close(G, N * T, RTOL, 1e-12), 'gram', feats, pt, G, N * T,
                    "Gram matrix of the 'autocorrelation' data matrix != N * Toeplitz(biased autocorrelation)")
    else:
        raise ValueError(kind)


def repro(pt):
    if pt['kind'] == 'cross':
        return ('import numpy as np, spectrum\nprint(spectrum.CORRELATION(np.array(%r), np.array(%r), maxlags=%r, norm=%r))'
                % (np.asarray(pt['x']).tolist(), np.asarray(pt['y']).tolist(), pt['maxlags'], pt['norm']))
    return None
