"""C19  Multitaper estimates are weighted means of tapered periodograms.  Engine EX."""
import math
import numpy as np

from .. import alphabet as A
from ..core import close, relerr
from ..ref import dft as rdft
from ..ref import mtm as rmtm

PROP = 'C19'
USES_MTM = True
RULE = ('EX engine: pmtm and MultiTapering on every record of the fixed noise-like / tone families, real and complex, N in the bound x NW in {1.5, 2, 2.5, 4} x '
        'EVERY k in 2..floor(2NW) and the default x NFFT in {N, N+1, 2N, 2N+1} x method in {unity, eigen, adapt} x tapers computed internally vs passed as e=, v=; '
        'eigenspectra compared with an explicit-sum DFT of taper*data, weights with their closed forms, adaptive weights inverted through Thomson\'s formula '
        '(one spectrum S >= 0 per frequency must explain all k weights) and checked as a fixed point; class PSD == mean_k w |Sk|^2 (doubled, folded for real data). '
        'Distinct = digests of eigenspectra')
ASSUMPTIONS = ['tapers are those returned by dpss of the same tree (their correctness is C18); the C routine is recompiled for the run',
               "adaptive fixed point: mean_f |S - sum_k w_k |Sk|^2 / sum_k w_k| <= the routine's documented stopping tolerance 0.0005*sigma^2/NFFT, asserted whenever a reference Thomson iteration converges in fewer than the routine's cap of 100 steps",
               'tolerance 1e-9 relative elsewhere']


def bounds(tier):
    q = tier == 'quick'
    return {'N': [16, 17, 32] if q else [16, 17, 32, 64, 256, 1024], 'NW': [1.5, 2, 2.5, 4, 1.8, 2.3, 8], 'k': 'default and every 2..floor(2NW)', 'NFFT': 'N, N+1, 2N, 2N+1; omitted for N in %s' % ([16, 300] if q else [16, 33, 256, 257, 300, 700]), 'representations': 'float64/complex128, int16/uint8/int64, float32/complex64, amplitudes 1e-120 and 1e120',
            'methods': ['unity', 'eigen', 'adapt'], 'families': 'noise-like + tones, real and complex', 'histories': 'every ordered pair of (NW in {2,2.5,4}) x (k in {default,3}) x (unity, adapt) on one object, recomputed explicitly'}


def expected_clauses(tier):
    return ['eigenspectra', 'eigenvalues', 'weights_unity', 'weights_eigen', 'weights_adapt', 'adapt_fixed_point', 'class_psd', 'precomputed', 'history', 'default_nfft']


def shards(tier):
    q = tier == 'quick'
    out = []
    for N in ([16, 17, 32] if q else [16, 17, 32, 64, 256, 1024]):
        for cplx in (False, True):
            for NW in (1.5, 2.0, 2.5, 4.0, 1.8, 2.3, 8.0):
                out.append((N, cplx, NW))
    for N in ([16, 300] if q else [16, 33, 256, 257, 300, 700]):
        out.append(('default_nfft', N))
    for N in (16, 17):
        out.append(('max_k', N))         # as many tapers as samples, no padding: the weight matrix of 'adapt' is square
    return out


def run_shard(desc, R, tier):
    if desc[0] == 'default_nfft':
        # NFFT omitted: whatever grid the routine chooses must hold the whole record (NFFT >= N) and carry its DFT
        N = desc[1]
        for name, x in A.gen_real(N)[:1] + A.gen_cplx(N)[:1]:
            for meth in ('unity', 'adapt'):
                eval_point({'x': x, 'NW': 2.5, 'k': None, 'NFFT': 'default', 'method': meth, 'name': name}, R)
        return
    if desc[0] == 'max_k':
        N = desc[1]
        for name, x in A.gen_real(N)[:1] + A.gen_cplx(N)[:1]:
            for k in (N, N - 1):
                for nf in (N, N + 1):
                    for meth in ('unity', 'eigen', 'adapt'):
                        eval_point({'x': x, 'NW': 7.0, 'k': k, 'NFFT': nf, 'method': meth, 'name': name}, R)
        return
    N, cplx, NW = desc
    if not NW < N / 2.0 or (NW >= 8 and N < 32):
        return
    fam = (A.gen_cplx(N) + A.tones_cplx(N)) if cplx else (A.gen_real(N) + A.tones_real(N))
    if not cplx and NW in (2.0, 2.3):
        fam = A.pcm(N) + A.pcm64(N) + fam          # integer sample dtypes (WAV data) given to pmtm and to the class
    if N >= 256:
        fam = fam[:3] + fam[-3:]
    elif tier == 'quick':
        fam = fam[::3]
    if NW in (2.0, 2.5):
        fam = A.single(fam, 1) + A.extreme(fam, 1) + fam     # float32 / complex64 records; amplitudes 1e-120 and 1e120
    ks = [None] + list(range(2, int(math.floor(2 * NW)) + 1))
    if NW >= 8:
        ks = [None, 8]
        fam = fam[:2]
    if N >= 256:
        ks = [None, int(math.floor(2 * NW))]
    if NW == 2.5 and N <= 64:
        cfgs = [dict(NW=nw, k=k, method=m) for nw in (2.0, 2.5, 4.0) for k in (None, 3) for m in ('unity', 'adapt') if nw < N / 2.0]
        for name, x in fam[:2]:
            for a in cfgs:
                for b in cfgs:
                    if a != b:
                        eval_point({'kind': 'history', 'x': x, 'first': a, 'second': b, 'NFFT': N + 1, 'name': name}, R)
                for sd in ('twosided', 'centerdc'):
                    eval_point({'kind': 'history', 'x': x, 'first': a, 'second': a, 'NFFT': N + 1, 'name': name, 'sides': sd}, R)
    for name, x in fam:
        for k in ks:
            for nf in (N, N + 1, 2 * N, 2 * N + 1):
                for meth in ('unity', 'eigen', 'adapt'):
                    eval_point({'x': x, 'NW': NW, 'k': k, 'NFFT': nf, 'method': meth, 'name': name}, R)


def eval_history(pt, R):
    """Two-step history on one MultiTapering object: compute, change NW / k / method, compute again explicitly."""
    import spectrum
    x = np.asarray(pt['x'])
    a, b = pt['first'], pt['second']
    feats = {'dtype': 'complex' if np.iscomplexobj(x) else 'real', 'changed': ','.join(sorted(k for k in b if b[k] != a[k]))}
    R.point(pt)
    R.calls(3)
    try:
        o = spectrum.MultiTapering(x, NW=a['NW'], k=a['k'], method=a['method'], NFFT=pt['NFFT'], scale_by_freq=False)
        o()
        if pt.get('sides'):
            o.sides = pt['sides']
        o.NW, o.k, o.method = b['NW'], b['k'], b['method']
        o()
        got = np.asarray(o.psd)
        fresh = spectrum.MultiTapering(x, NW=b['NW'], k=b['k'], method=b['method'], NFFT=pt['NFFT'], scale_by_freq=False)
        exp = np.asarray(fresh.psd)
        tapers, lam = spectrum.dpss(len(x), b['NW'], b['k'])
        R.check(got.shape == exp.shape and close(got, exp, 1e-12, 0.0) and close(np.asarray(o.eigenvalues), np.asarray(lam), 1e-12, 0.0), 'history', feats, pt, got, exp,
                'recomputing after changing NW / k / method does not give the estimate of a fresh object (stale tapers / weights)', outs=(got,))
    except Exception as e:
        R.viol('history', dict(feats, exc=type(e).__name__), pt, repr(e), None, 'history raised')


def eval_point(pt, R):
    if pt.get('kind') == 'history':
        return eval_history(pt, R)
    import spectrum
    x = np.asarray(pt['x'])
    N = len(x)
    NW, k, meth = float(pt['NW']), pt['k'], pt['method']
    default_nfft = pt['NFFT'] == 'default'
    nf = None if default_nfft else int(pt['NFFT'])
    cplx = np.iscomplexobj(x)
    single = A.is_single(x)
    u = 1e4 if single else 1.0          # float32 / complex64 records may be processed in single precision
    feats = {'method': meth, 'dtype': ('complex' if cplx else ('int' if x.dtype.kind in 'iu' else 'real')) + ('-single' if single else ''),
             'nfft': 'default' if default_nfft else ('odd' if nf % 2 else 'even')}
    R.point(pt)
    R.calls(2)
    try:
        tapers, lam = spectrum.dpss(N, NW, k)
        tapers, lam = np.asarray(tapers), np.asarray(lam)
        if default_nfft:
            Sk, w, ev = spectrum.pmtm(x, NW=NW, k=k, method=meth)
        else:
            Sk, w, ev = spectrum.pmtm(x, NW=NW, k=k, NFFT=nf, method=meth)
        Sk, w, ev = np.asarray(Sk), np.asarray(w), np.asarray(ev)
    except Exception as e:
        R.viol('eigenspectra', dict(feats, exc=type(e).__name__), pt, repr(e), None, 'pmtm raised inside its domain')
        return
    if default_nfft:
        nf = int(Sk.shape[-1]) if Sk.ndim == 2 else 0
        R.check(nf >= N, 'default_nfft', feats, pt, nf, '>= %d' % N, 'with NFFT omitted the routine chose a grid shorter than the record (the record is truncated)')
        if nf < N:
            return
    K = tapers.shape[1]
    ref = np.stack([rdft.dft(tapers[:, j] * A.prom(x), nf) for j in range(K)], axis=0)
    R.check(Sk.shape == ref.shape and close(Sk, ref, 1e-9 * u, 0.0), 'eigenspectra', feats, pt, Sk, ref, 'eigenspectrum j != NFFT-point DFT of taper_j * data', outs=(Sk,),
            err=relerr(Sk, ref) if Sk.shape == ref.shape else None)
    R.check(ev.shape == lam.shape and close(ev, lam, 1e-12, 0.0), 'eigenvalues', feats, pt, ev, lam, 'returned eigenvalues are not the taper concentration ratios')
    sig2 = float(np.real(np.vdot(A.prom(x), A.prom(x)))) / N
    P = np.abs(ref) ** 2               # (K, NFFT)
    if meth == 'unity':
        R.check(w.shape == (K, 1) and np.all(w == 1.0), 'weights_unity', feats, pt, w, 'ones', "weights of 'unity' are not all 1")
        wfull = np.ones((K, nf))
    elif meth == 'eigen':
        expw = (lam / (np.arange(K) + 1.0)).reshape(K, 1)
        R.check(w.shape == (K, 1) and close(w, expw, 1e-12, 0.0), 'weights_eigen', feats, pt, w, expw, "weights of 'eigen' are not eigenvalue/(index+1)")
        wfull = np.repeat(expw, nf, axis=1)
    else:
        ok = w.shape == (nf, K) and not np.iscomplexobj(w) and np.all(np.isfinite(w)) and np.all(w >= 0) and np.all(w <= 1.0 / lam[None, :] * (1 + 1e-9))
        R.check(ok, 'weights_adapt', dict(feats, sub='range'), pt, w if not ok else None, '[0, 1/lambda] real', "adaptive weights not real numbers in [0, 1/eigenvalue]")
        if not ok:
            return
        # invert Thomson's formula: b_k = sqrt(w_k/lam_k) = S/(lam_k S + sig2 (1-lam_k))  =>  S = sig2 (1-lam_k) b_k / (1 - lam_k b_k)
        b = np.sqrt(w / lam[None, :])
        den = 1.0 - lam[None, :] * b
        a = sig2 * (1.0 - lam)[None, :]
        with np.errstate(all='ignore'):
            Sfrom = a * b / den
        # tapers with 1-lam ~ 0 carry no information on S (b ~ 1/lam whatever S): use the others
        info = ((1.0 - lam) > 1e-4)      # tapers with 1-lam ~ 0 carry no information on S (the inversion is ill-conditioned)
        good = True
        if info.sum() >= 2:
            Sg = Sfrom[:, info]
            S0 = np.median(Sg, axis=1)
            spread = np.max(np.abs(Sg - S0[:, None]), axis=1)
            good = bool(np.all(spread <= 1e-5 * np.maximum(S0, 1e-300) + 1e-9 * sig2)) and bool(np.all(S0 >= 0))
        else:
            S0 = None
        R.check(good, 'weights_adapt', feats, pt, None, None, "adaptive weights are not Thomson's formula evaluated at one non-negative spectrum per frequency")
        S1 = np.sum(w * P.T, axis=1) / np.sum(w, axis=1)
        tol = 0.0005 * sig2 / nf
        resid = float(np.mean(np.abs(S0 - S1))) if S0 is not None else None
        # reference iteration: how many steps does Thomson's iteration need on this point?  The routine caps at 100.
        Sref, wref, nit = rmtm.adaptive(P, lam, sig2, tol, maxit=200)
        if nit >= 100:
            R.skip('adapt_iteration_needs>=100_steps(cap of the routine)')
        else:
            if single:
                R.skip('fixed_point_tolerance_not_asserted_for_single_precision_records')     # the weights are still compared with the reference iteration below
            elif resid is None:
                R.skip('thomson_inversion_ill_conditioned(all 1-lambda < 1e-4)')      # the weights are still compared with the reference iteration below
            else:
              R.check(resid <= tol * (1 + 1e-6 * u) + 1e-12 * u * sig2, 'adapt_fixed_point', feats, pt, resid, tol,
                    'the spectrum behind the adaptive weights is not a fixed point of the weighted mean within the documented tolerance although the reference iteration converges in %d steps' % nit,
                    err=resid / max(tol, 1e-300))
            R.check(close(w, wref, 1e-6 * u, 1e-9 * u), 'weights_adapt', dict(feats, sub='reference_iteration'), pt, w, wref,
                    'adaptive weights differ from the reference Thomson iteration')
        wfull = w.T
    if default_nfft:
        return
    # class PSD
    R.calls()
    try:
        o = spectrum.MultiTapering(x, NW=NW, k=k, NFFT=nf, method=meth, scale_by_freq=False)
        psd = np.asarray(o.psd)
    except Exception as e:
        R.viol('class_psd', dict(feats, exc=type(e).__name__), pt, repr(e), None, 'MultiTapering raised inside its domain')
        return
    exp = np.mean(wfull * P, axis=0)
    if not cplx:
        L = nf // 2 + 1 if nf % 2 == 0 else (nf + 1) // 2
        exp = 2.0 * exp[:L]
    R.check(psd.shape == exp.shape and not np.iscomplexobj(psd) and np.all(psd >= 0) and close(psd, exp, 1e-9 * u, 0.0), 'class_psd', feats, pt, psd, exp,
            'MultiTapering.psd != mean over tapers of weight * |eigenspectrum|^2 (doubled and folded for real data), real and non-negative',
            err=relerr(psd, exp) if psd.shape == exp.shape else None)
    # precomputed tapers
    R.calls()
    try:
        Sk2, w2, ev2 = spectrum.pmtm(x, e=lam, v=tapers, NFFT=nf, method=meth)
        same = close(np.asarray(Sk2), Sk, 1e-12, 0.0) and close(np.asarray(w2), w, 1e-12, 0.0) and close(np.asarray(ev2), ev, 1e-12, 0.0)
        R.check(same, 'precomputed', feats, pt, None, None, 'supplying precomputed tapers (e=, v=) changes the result')
    except Exception as e:
        R.viol('precomputed', dict(feats, exc=type(e).__name__), pt, repr(e), None, 'pmtm with precomputed tapers raised')
