"""C03  Estimates are quadratic in signal amplitude.  Engine EX (metamorphic: f(c x) vs f(x))."""
import itertools
import numpy as np

from .. import alphabet as A
from .. import classes as C
from ..core import close, relerr
from ..ref import ar as rar

PROP = 'C03'
USES_MTM = True
RULE = ('EX engine (metamorphic): every functional estimator and every PSD class x every data vector of the lattices {-1,0,1}^N / {0,1,-1,i,1+i}^N and of the '
        'fixed noise-like / tone families x every scalar c of the alphabet (real c for real data, complex c for complex data, 1e-3 <= |c| <= 1e3) x orders / lags / '
        'NFFT / criteria; f(c*x) is compared with the prescribed power of |c| times f(x) for every returned quantity (PSD, variance: |c|^2; coefficients, weights, '
        'selected orders, subspace size: unchanged; MUSIC: unchanged; EV and singular values: |c|; eigenspectra: c). Distinct = digests of f(x)')
ASSUMPTIONS = ['domain: the unscaled call succeeds with finite outputs and the reference deems the problem well posed (non-zero data, Gram condition <= 1e6, Burg stage energies > 1e-6 of the data energy)',
               'tolerance 1e-7 relative to the largest entry of each returned array',
               'order / subspace decisions are compared exactly; criterion-based probes use the noise-like families only (ties of a criterion are not in the domain)']
RTOL = 1e-7


def bounds(tier):
    q = tier == 'quick'
    return {'lattice': 'ZR(1)^N N=%s, ZC5^N N=%s' % ('5' if q else '5,6,7', '3' if q else '3,4,5'), 'families_N': [16] if q else [16, 17, 24, 33],
            'scalars_real': A.SCAL_R[:3] if q else A.SCAL_R, 'scalars_complex': [str(c) for c in (A.SCAL_C[:2] if q else A.SCAL_C)],
            'probes': len(PROBES)}


def expected_clauses(tier):
    return ['scale']


# ------------------------------------------------------------------------------------------------ probes
# each probe: name -> (function(x) -> dict(output name -> value), dict(output name -> kind), domain key)
# kinds: 'p2' (|c|^2), 'p1' (|c|), 'p0' (unchanged), 'c' (times c), 'eq' (exactly equal integers)
def _f(name):
    def deco(fn):
        PROBES[name] = fn
        return fn
    return deco


PROBES = {}


def _len(a):
    return int(len(a))


@_f('speriodogram')
def p_sper(x, o):
    import spectrum
    return {'psd': (spectrum.speriodogram(x, NFFT=o['NFFT'], detrend=False, scale_by_freq=False, window='hamming'), 'p2')}


@_f('CORRELOGRAMPSD')
def p_corrpsd(x, o):
    import spectrum
    return {'psd': (spectrum.CORRELOGRAMPSD(x, lag=o['lag'], NFFT=o['NFFT']), 'p2')}


@_f('CORRELATION')
def p_corr(x, o):
    import spectrum
    out = {}
    for norm in ('biased', 'unbiased', None):
        out['r_%s' % norm] = (spectrum.CORRELATION(x, maxlags=o['lag'], norm=norm), 'p2')
    out['r_coeff'] = (spectrum.CORRELATION(x, maxlags=o['lag'], norm='coeff'), 'p0')
    return out


@_f('arburg')
def p_burg(x, o):
    import spectrum
    a, rho, k = spectrum.arburg(x, o['order'])
    return {'a': (a, 'p0'), 'rho': (rho, 'p2'), 'k': (k, 'p0')}


@_f('arburg_criteria')
def p_burgc(x, o):
    import spectrum
    out = {}
    for crit in ('AIC', 'AICc', 'KIC', 'FPE', 'AKICc', 'MDL'):
        a, rho, k = spectrum.arburg(x, o['order'], crit)
        out['order_' + crit] = (_len(a), 'eq')
        out['rho_' + crit] = (rho, 'p2')
    return out


@_f('aryule')
def p_yule(x, o):
    import spectrum
    a, P, k = spectrum.aryule(x, o['order'])
    return {'a': (a, 'p0'), 'rho': (P, 'p2'), 'k': (k, 'p0')}


@_f('arcovar')
def p_cov(x, o):
    import spectrum
    a, e = spectrum.arcovar(x, o['order'])
    return {'a': (a, 'p0'), 'e': (e, 'p2')}


@_f('arcovar_marple')
def p_covm(x, o):
    from spectrum.covar import arcovar_marple
    af, pf, ab, pb, pv = arcovar_marple(x, o['order'])
    return {'af': (np.asarray(af)[:o['order']], 'p0'), 'pf': (pf, 'p2'), 'ab': (np.asarray(ab)[:o['order']], 'p0'), 'pb': (pb, 'p2')}


@_f('modcovar')
def p_mod(x, o):
    import spectrum
    a, e = spectrum.modcovar(x, o['order'])
    return {'a': (a, 'p0'), 'e': (e, 'p2')}


@_f('modcovar_marple')
def p_modm(x, o):
    from spectrum.modcovar import modcovar_marple
    a, p, pv = modcovar_marple(x, o['order'])
    return {'a': (np.asarray(a)[:o['order']], 'p0'), 'p': (p, 'p2')}


@_f('arma_estimate')
def p_arma(x, o):
    import spectrum
    a, b, rho = spectrum.arma_estimate(x, o['P'], o['Q'], o['lag'])
    return {'a': (np.asarray(a)[:o['P']], 'p0'), 'b': (b, 'p0'), 'rho': (rho, 'p2')}


@_f('ma')
def p_ma(x, o):
    import spectrum
    b, rho = spectrum.ma(x, o['Q'], o['M'])
    return {'b': (b, 'p0'), 'rho': (rho, 'p2')}


@_f('minvar')
def p_minvar(x, o):
    import spectrum
    psd, a, k = spectrum.minvar(x, o['order'], NFFT=o['NFFT'])
    return {'psd': (psd, 'p2'), 'a': (a, 'p0'), 'k': (k, 'p0')}


@_f('music')
def p_music(x, o):
    from spectrum.eigenfre import eigen
    psd, s = eigen(x, o['IP'], NSIG=o.get('NSIG'), NFFT=o['NFFT'], method='music', threshold=o.get('threshold'), criteria=o.get('criteria', 'aic'))
    return {'psd': (psd, 'i0'), 'sv': (s, 'p1')}


@_f('ev')
def p_ev(x, o):
    from spectrum.eigenfre import eigen
    psd, s = eigen(x, o['IP'], NSIG=o.get('NSIG'), NFFT=o['NFFT'], method='ev', threshold=o.get('threshold'), criteria=o.get('criteria', 'aic'))
    return {'psd': (psd, 'i1'), 'sv': (s, 'p1')}


@_f('pmtm')
def p_pmtm(x, o):
    import spectrum
    sk, w, ev = spectrum.pmtm(x, NW=o['NW'], k=o.get('k'), NFFT=o['NFFT'], method=o['method'])
    return {'Sk': (sk, 'c'), 'weights': (w, 'p0'), 'eigenvalues': (ev, 'p0')}


def class_probe(cls):
    def fn(x, o):
        obj = C.make(cls, x, NFFT=o.get('NFFT'), sampling=1.0, scale_by_freq=False, **{k: v for k, v in o.items() if k != 'NFFT'})
        psd = np.asarray(obj.psd)
        kind = 'i0' if cls == 'pmusic' else ('i1' if cls == 'pev' else 'p2')
        out = {'psd': (psd, kind)}
        for attr, kd in (('ar', 'p0'), ('ma', 'p0'), ('reflection', 'p0'), ('rho', 'p2')):
            v = getattr(obj, attr, None)
            if v is not None:
                if attr == 'ar' and cls == 'parma':
                    v = np.asarray(v)[:o['P']]
                out[attr] = (v, kd)
        if cls == 'MultiTapering':
            out['weights'] = (obj.weights, 'p0')
        if cls in ('pmusic', 'pev'):
            out['sv'] = (obj.eigenvalues, 'p1')
        return out
    return fn


for _c in C.NAMES:
    PROBES['class:' + _c] = class_probe(_c)

# configurations per probe (orders / lags / NFFT); N-dependent ones are filtered by `admissible`
CONFIGS = {
    'speriodogram': [dict(NFFT=None), dict(NFFT=33)],
    'CORRELOGRAMPSD': [dict(lag=3, NFFT=16), dict(lag=2, NFFT=9)],
    'CORRELATION': [dict(lag=3)],
    'arburg': [dict(order=1), dict(order=2), dict(order=3), dict(order=6)],
    'arburg_criteria': [dict(order=8)],
    'aryule': [dict(order=1), dict(order=2), dict(order=3), dict(order=6)],
    'arcovar': [dict(order=1), dict(order=2), dict(order=5)],
    'arcovar_marple': [dict(order=1), dict(order=2), dict(order=5)],
    'modcovar': [dict(order=1), dict(order=2), dict(order=5)],
    'modcovar_marple': [dict(order=1), dict(order=2), dict(order=5)],
    'arma_estimate': [dict(P=2, Q=2, lag=8), dict(P=5, Q=2, lag=8)],
    'ma': [dict(Q=2, M=6), dict(Q=3, M=9)],
    'minvar': [dict(order=2, NFFT=8), dict(order=3, NFFT=9), dict(order=5, NFFT=16)],
    'music': [dict(IP=2, NSIG=1, NFFT=8), dict(IP=4, NSIG=None, threshold=None, criteria='aic', NFFT=16), dict(IP=4, NSIG=None, criteria='mdl', NFFT=16),
              dict(IP=4, NSIG=None, threshold=2.0, NFFT=16), dict(IP=80, NSIG=None, criteria='aic', NFFT=256), dict(IP=80, NSIG=None, criteria='mdl', NFFT=256)],
    'ev': [dict(IP=2, NSIG=1, NFFT=8), dict(IP=4, NSIG=None, criteria='aic', NFFT=16), dict(IP=4, NSIG=None, threshold=2.0, NFFT=16),
           dict(IP=80, NSIG=None, criteria='mdl', NFFT=256)],
    'pmtm': [dict(NW=2.5, NFFT=32, method='adapt'), dict(NW=2, NFFT=33, method='eigen'), dict(NW=2.5, k=3, NFFT=32, method='unity')],
    'class:Periodogram': [dict(NFFT=None)],
    'class:pcorrelogram': [dict(lag=3, NFFT=16)],
    'class:pburg': [dict(order=2, NFFT=16), dict(order=4, NFFT=17)],
    'class:pyule': [dict(order=2, NFFT=16), dict(order=4, NFFT=17)],
    'class:pcovar': [dict(order=2, NFFT=16), dict(order=4, NFFT=17)],
    'class:pmodcovar': [dict(order=2, NFFT=16), dict(order=4, NFFT=17)],
    'class:parma': [dict(P=2, Q=2, lag=8, NFFT=16)],
    'class:pma': [dict(Q=2, M=6, NFFT=16)],
    'class:pminvar': [dict(order=3, NFFT=16)],
    'class:pmusic': [dict(IP=4, NSIG=2, NFFT=16)],
    'class:pev': [dict(IP=4, NSIG=2, NFFT=16)],
    'class:MultiTapering': [dict(NW=2.5, NFFT=32, method='adapt'), dict(NW=2.5, NFFT=32, method='eigen')],
}
NEEDS_LONG = {'arburg_criteria', 'arma_estimate', 'ma', 'pmtm', 'class:parma', 'class:pma', 'class:MultiTapering', 'class:pmusic', 'class:pev',
              'class:pminvar'}
NOISE_ONLY = {'arburg_criteria', 'arma_estimate', 'ma', 'class:parma', 'class:pma'}


def admissible(name, o, x, minlen=16):
    """Domain predicate from the point and reference quantities only."""
    N = len(x)
    if not np.any(x != 0):
        return 'zero_data'
    power = float(np.mean(np.abs(x) ** 2))
    if name in NEEDS_LONG and N < minlen:
        return 'needs_longer_record'
    if 'lag' in o and name in ('CORRELOGRAMPSD', 'CORRELATION', 'class:pcorrelogram') and o['lag'] >= N:
        return 'lag>=N'
    if name in ('speriodogram', 'class:Periodogram') and o.get('NFFT') is not None and o['NFFT'] < N:
        return 'nfft<N'
    order = o.get('order')
    base = name.replace('class:', '')
    if base in ('arburg', 'pburg', 'minvar', 'pminvar'):
        p = order if base in ('arburg', 'pburg') else order - 1
        if p >= N - 1:
            return 'order>=N-1'
        if p > 0:
            k, rho, dens = rar.burg(x, p)
            if len(k) < p or np.any(dens < 1e-6 * N * power) or np.any(rho < 1e-6 * power):
                return 'degenerate_burg'
    if base in ('aryule', 'pyule'):
        if order >= N:
            return 'order>=N'
        from ..ref import corr as rc, lp
        r = rc.correlation(x, x, order, 'biased')
        ev = np.linalg.eigvalsh(lp.toeplitz(r))
        if ev.min() < 1e-6 * ev.max():
            return 'ill_conditioned_autocorrelation'
    if base in ('arcovar', 'arcovar_marple', 'pcovar', 'modcovar', 'modcovar_marple', 'pmodcovar'):
        if N - order < order + 1:
            return 'too_few_equations'
        meth = 'covariance' if 'mod' not in base else 'modified'
        a, emin, cond, X = rar.ls_ar(x, order, meth)
        if not np.isfinite(cond) or cond > 1e6:
            return 'gram_ill_conditioned'
        if emin < 1e-9 * float(np.sum(np.abs(x) ** 2)):
            return 'zero_residual'
        if name.startswith('class:'):
            nf = C.resolve_nfft(o.get('NFFT'), N)
            Af = np.fft.fft(np.concatenate([[1.0], a]), nf) if nf > len(a) else np.ones(1)
            if float(np.min(np.abs(Af))) < 1e-5:
                return 'model_pole_on_the_frequency_grid'     # PSD = rho/|A|^2 is a division by ~0 there
    if base in ('arma_estimate', 'parma') and not (o['Q'] <= o['lag'] and o['lag'] + 2 * o['P'] - o['Q'] <= N and 2 * o['Q'] < N - o['P']
                                                  and o['lag'] - o['Q'] > o['P']):
        return 'arma_domain'
    if base in ('ma', 'pma') and not (0 < o['Q'] < o['M'] < N):
        return 'ma_domain'
    if base in ('music', 'ev') and N < 2 * o['IP']:
        return 'N<2P'
    if base in ('music', 'ev') and N < minlen and o.get('NSIG') is None:
        return 'needs_longer_record'
    if base in ('music', 'ev', 'pmusic', 'pev'):
        sv = np.linalg.svd(rar.fb_matrix(x, o['IP']), compute_uv=False)
        if sv[-1] < 1e-6 * sv[0]:
            return 'rank_deficient_data_matrix'     # noise subspace / 1/S weights / criteria undefined
    return None


def datasets(tier):
    q = tier == 'quick'
    out = []
    for n in ([5] if q else [5, 6, 7]):
        out.append(('ZR1', n))
    for n in ([3] if q else [3, 4, 5]):
        out.append(('ZC5', n))
    for N in ([16] if q else [16, 17, 24, 33]):
        out.append(('GENR', N))
        out.append(('GENC', N))
    out.append(('GENR', 160))        # long record x wide subspace (IP = 80): automatic subspace selection over many singular values
    out.append(('GENC', 160))
    return out


def shards(tier):
    out = []
    for ds in datasets(tier):
        for name in PROBES:
            if ds[0] in ('ZR1', 'ZC5') and name in NEEDS_LONG:
                continue
            if ds[1] == 160 and name not in ('music', 'ev'):
                continue
            out.append((ds[0], ds[1], name))
    return out


def iter_data(kind, n):
    if kind == 'ZR1':
        for s in itertools.product(A.ZR(1), repeat=n):
            yield None, np.array(s, dtype=float)
    elif kind == 'ZC5':
        for s in itertools.product(A.ZC5, repeat=n):
            yield None, np.array(s, dtype=complex)
    elif kind == 'GENR':
        fam = A.gen_real(n) + A.tones_real(n)
        for name, x in fam + A.scaled(fam, 2):
            yield name, x
    else:
        fam = A.gen_cplx(n) + A.tones_cplx(n)
        for name, x in fam + A.scaled(fam, 2):
            yield name, x


def run_shard(desc, R, tier):
    kind, n, name = desc
    q = tier == 'quick'
    for dname, x in iter_data(kind, n):
        if name in NOISE_ONLY and dname is not None and not (dname.startswith('weyl') or dname.startswith('cweyl')):
            continue
        cplx = np.iscomplexobj(x)
        scal = (A.SCAL_C[:2] if q else A.SCAL_C) if cplx else (A.SCAL_R[:3] if q else A.SCAL_R)
        if n == 160:
            if dname is None or not (dname.startswith('weyl0') or dname.startswith('cweyl0')) or '*' in dname:
                continue
            scal = [1e4 * (1j if cplx else 1.0), 1e-5]      # the product of 79 singular values leaves the float range; their geometric mean does not
        for o in CONFIGS[name]:
            if (n == 160) != (o.get('IP') == 80):
                continue
            why = admissible(name, o, x)
            if why:
                R.point(None, indomain=False)
                R.skip(why)
                continue
            eval_point({'probe': name, 'o': o, 'x': x, 'scalars': list(scal), 'name': dname}, R)


def _factor(kind, c):
    if kind == 'p2':
        return abs(c) ** 2
    if kind == 'p1':
        return abs(c)
    if kind == 'c':
        return c
    return 1.0


def eval_point(pt, R):
    name, o, x = pt['probe'], pt['o'], np.asarray(pt['x'])
    fn = PROBES[name]
    cplx = np.iscomplexobj(x)
    feats0 = {'probe': name, 'dtype': 'complex' if cplx else 'real'}
    R.calls()
    try:
        base = fn(x, o)
        finite = all(np.all(np.isfinite(np.asarray(v, dtype=complex))) for v, kd in base.values() if kd != 'eq')
    except Exception as e:
        R.point(pt)
        R.viol('scale', dict(feats0, exc=type(e).__name__, call='unscaled'), pt, repr(e), None, 'estimator raised inside its domain')
        return
    if not finite:
        R.point(pt, indomain=False)
        R.skip('unscaled_output_not_finite')
        return
    R.point(pt)
    R.dig(*[np.asarray(v) for v, kd in base.values() if kd != 'eq'])
    for c in pt['scalars']:
        c = complex(c) if cplx else float(np.real(c))
        ptc = dict(pt, scalars=[c])
        R.calls()
        try:
            sc = fn(c * x, o)
        except Exception as e:
            R.viol('scale', dict(feats0, exc=type(e).__name__), ptc, repr(e), None, 'f(c*x) raised although f(x) succeeded')
            continue
        for key, (v0, kind) in base.items():
            v1 = sc[key][0]
            feats = dict(feats0, out=key)
            if kind == 'eq':
                R.check(v0 == v1, 'scale', feats, ptc, v1, v0, 'order / subspace decision depends on the amplitude')
                continue
            v0a = np.asarray(v0)
            v1 = np.asarray(v1)
            if kind in ('i0', 'i1'):       # pseudo-spectra: compare the noise-subspace projection 1/P (peaks are divisions by ~0)
                v0a = 1.0 / v0a
                v1 = 1.0 / v1
                exp = v0a / (abs(c) if kind == 'i1' else 1.0)
            else:
                exp = _factor(kind, c) * v0a
            atol = 1e-9 if kind == 'p0' else 0.0    # coefficients are dimensionless O(1) quantities
            R.check(v1.shape == exp.shape and close(v1, exp, RTOL, atol), 'scale', feats, ptc, v1, exp,
                    '%s(c*x).%s != %s * %s(x).%s' % (name, key, {'p2': '|c|^2', 'p1': '|c|', 'p0': '1', 'c': 'c', 'i0': '1', 'i1': '|c|'}[kind], name, key),
                    err=relerr(v1, exp) if v1.shape == exp.shape else None, model_ctx={'base': v0, 'c': c, 'kind': kind})
