"""C06  Side conversions are lossless, length-consistent, axis-aligned, path independent.  Engine BFS
(+ EX sweep over the tools helpers)."""
import itertools
import numpy as np

from .. import bfs
from ..core import close, relerr
from ..ref import sides as rs

PROP = 'C06'
RULE = ('BFS engine: for every data type (real one-sided / complex two-sided), every NFFT in the bound (even and odd) and every stored PSD '
        'vector of a linear basis (unit vectors, pair sums for additivity, all-ones, an all-distinct vector), breadth-first search over '
        "assignments sides=onesided|twosided|centerdc|default on a real Spectrum object, canonical state = full vars(obj); in every distinct "
        'state the stored PSD, get_converted_psd(t) for every admissible t and frequencies(t) are compared with conversion matrices built from '
        'the frequency axes.  EX part: tools helpers, cshift and arma2psd(sides=centerdc) on every basis vector of every length in the bound. '
        'Distinct/non-trivial = distinct digests of returned vectors')
ASSUMPTIONS = ['linearity: agreement on a basis plus additivity on pair sums decides the conversion for every PSD vector of that length',
               'tools.onesided_2_twosided / twosided_2_onesided are exercised on their documented domain (even NFFT, symmetric two-sided input)',
               'exactness: 4 ulp relative tolerance (x2 and /2 are exact in binary floating point)']

ULP4 = 4 * 2.220446049250313e-16
SIDES = ('onesided', 'twosided', 'centerdc')


def bounds(tier):
    if tier == 'quick':
        return {'NFFT': '2..9', 'depth': 3, 'events': 'sides in {onesided (real only), twosided, centerdc, default}',
                'vectors': 'e_i, e_i+e_j, ones, all-distinct', 'helpers_len': '2..9', 'arma2psd_NFFT': '3..9', 'estimator_objects': 'pburg, Periodogram x real/complex x NFFT 12..15', 'wide_range': 'every NFFT in 18..129 x sampling in {1, 10, 8000, 44100} x single conversions'}
    return {'NFFT': '2..17', 'depth': 5, 'events': 'sides in {onesided (real only), twosided, centerdc, default}',
            'vectors': 'e_i, e_i+e_j, ones, all-distinct', 'helpers_len': '2..17', 'arma2psd_NFFT': '3..17', 'estimator_objects': 'pburg, Periodogram x real/complex x NFFT 12..33', 'wide_range': 'every NFFT in 18..417 x sampling in {1, 10, 8000, 44100} x single conversions'}


def expected_clauses(tier):
    return ['length', 'axis', 'stored', 'power', 'getconv', 'getconv_pure', 'helper', 'cshift', 'arma2psd_centerdc']


def shards(tier):
    hi = 9 if tier == 'quick' else 17
    depth = 3 if tier == 'quick' else 5
    out = []
    for NFFT in range(2, hi + 1):
        for dt in ('real', 'complex'):
            out.append(('bfs', dt, NFFT, depth))
    for NFFT in range(12, (15 if tier == 'quick' else 33) + 1):
        for dt in ('real', 'complex'):
            for cls in ('pburg', 'Periodogram'):
                out.append(('bfs_obj', dt, NFFT, depth, cls))
    for L in range(2, hi + 1):
        out.append(('helpers', L))
    for NFFT in range(3, hi + 1):
        out.append(('arma', NFFT))
    for lo in range(18, 130 if tier == 'quick' else 420, 16):
        out.append(('wide', lo, lo + 16))          # every NFFT of a wide range x 3 sampling rates, single conversions (float edge cases of the axes)
    return out


def default_sides(dt):
    return 'onesided' if dt == 'real' else 'twosided'


def vectors(L):
    out = []
    for i in range(L):
        v = np.zeros(L)
        v[i] = 1.0
        out.append(v)
    out.append(np.ones(L))
    out.append(100.0 + np.arange(L))
    for i in range(L):
        for j in range(i + 1, L):
            v = np.zeros(L)
            v[i] = 1.0
            v[j] = 3.0
            out.append(v)
    return out


def build(start, hist):
    """Fresh Spectrum object with the stored PSD, then replay the sides assignments."""
    from spectrum.psd import Spectrum
    dt, NFFT, v0 = start['dtype'], start['NFFT'], start['v0']
    if start.get('cls'):
        import spectrum
        from .. import alphabet as A
        N = 12
        data = (A.weyl(N, 3) + np.cos(0.7 * np.arange(N))) if dt == 'real' else A.weylc(N, 3)
        if start['cls'] == 'pburg':
            s = spectrum.pburg(data, 3, NFFT=NFFT)
        else:
            s = spectrum.Periodogram(data, NFFT=NFFT)
        s.psd
        for ev in hist:
            s.sides = ev
        return s
    M = NFFT + int(start.get('extra_len') or 0)       # complex data: a record (and initial NFFT) longer than the PSD assigned afterwards
    if dt == 'real':
        data = np.arange(1.0, M + 1.0)
    else:
        data = np.arange(1.0, M + 1.0) * (1 + 1j)
    s = Spectrum(data, NFFT=M)
    store = start.get('store')
    if store == 'intlist':
        s.psd = [int(v) for v in v0]                  # integer-valued PSD given as a list of Python ints
    elif store == 'int64':
        s.psd = np.array(v0, dtype=np.int64)
    else:
        s.psd = np.array(v0, dtype=float)
    for ev in hist:
        s.sides = ev
    return s


def menu(start, hist):
    if start['dtype'] == 'real':
        return ('onesided', 'twosided', 'centerdc', 'default')
    return ('twosided', 'centerdc', 'default')


def run_shard(desc, R, tier):
    if desc[0] == 'bfs':
        _, dt, NFFT, depth = desc
        L = len(rs.bins(default_sides(dt), NFFT))
        starts = [{'dtype': dt, 'NFFT': NFFT, 'v0': v0} for v0 in vectors(L)]
        vs = vectors(L)
        for v0 in (vs[0], vs[L + 1], vs[-1]):
            # the same PSD stored as integers (list / int64 array); for complex data also assigned over a longer record
            starts.append({'dtype': dt, 'NFFT': NFFT, 'v0': v0, 'store': 'intlist'})
            starts.append({'dtype': dt, 'NFFT': NFFT, 'v0': v0, 'store': 'int64'})
            if dt == 'complex':
                starts.append({'dtype': dt, 'NFFT': NFFT, 'v0': v0, 'extra_len': 3})
        for start in starts:
            v0 = start['v0']
            st = bfs.explore(start, menu, build, depth, R,
                             on_state=lambda s, h: check_state(s, h, R),
                             on_exception=lambda s, h, e: on_exc(s, h, e, R))
            R.calls(st['transitions'])
            R.extra['bfs_states'] += st['states']
            R.extra['bfs_transitions'] += st['transitions']
            R.extra['bfs_runs'] += 1
            R.extra['bfs_fixpoints'] += 1 if st['fixpoint'] else 0
            R.extra['bfs_max_depth_completed'] = max(R.extra['bfs_max_depth_completed'], st['depth_completed'])
    elif desc[0] == 'bfs_obj':
        _, dt, NFFT, depth, cls = desc
        start = {'dtype': dt, 'NFFT': NFFT, 'v0': None, 'cls': cls}
        start['v0'] = np.array(build(start, ()).psd, dtype=float)
        st = bfs.explore(start, menu, build, depth, R,
                         on_state=lambda s, h: check_state(s, h, R),
                         on_exception=lambda s, h, e: on_exc(s, h, e, R))
        R.calls(st['transitions'])
        R.extra['bfs_states'] += st['states']
        R.extra['bfs_transitions'] += st['transitions']
        R.extra['bfs_runs'] += 1
        R.extra['bfs_fixpoints'] += 1 if st['fixpoint'] else 0
    elif desc[0] == 'helpers':
        L = desc[1]
        for v in vectors(L):
            for name in ('twosided_2_centerdc', 'centerdc_2_twosided', 'onesided_2_twosided', 'twosided_2_onesided'):
                eval_point({'kind': 'helper', 'name': name, 'v': v}, R)
        for v in (vectors(L)[0], vectors(L)[L + 1], vectors(L)[-1]):
            for flag in ('bool', 'np.bool_', 'int'):
                for container in ('float', 'int64', 'intlist'):
                    eval_point({'kind': 'helper_odd', 'v': v, 'flag': flag, 'container': container}, R)
            for container in ('int64', 'intlist'):
                eval_point({'kind': 'helper', 'name': 'onesided_2_twosided', 'v': v, 'container': container}, R)
        base = 100.0 + np.arange(L)
        for off in list(range(-L - 1, L + 2)) + [float(L // 2), L / 2.0]:
            eval_point({'kind': 'cshift', 'v': base, 'offset': off}, R)
    elif desc[0] == 'wide':
        for NFFT in range(desc[1], desc[2]):
            for dt in ('real', 'complex'):
                for fs in (1.0, 8000.0, 44100.0, 10.0):
                    eval_point({'kind': 'wide', 'dtype': dt, 'NFFT': NFFT, 'fs': fs}, R)
    elif desc[0] == 'arma':
        NFFT = desc[1]
        coefs = [None, [0.5], [-0.9], [0.5, -0.3], [0.5j], [0.3 + 0.4j, -0.2]]
        for A in coefs:
            for B in coefs:
                if A is None and B is None:
                    continue
                eval_point({'kind': 'arma', 'A': A, 'B': B, 'NFFT': NFFT}, R)
    else:
        raise ValueError(desc)


def _feats(start, hist, **kw):
    f = {'dtype': start['dtype'], 'nfft': 'odd' if start['NFFT'] % 2 else 'even'}
    if start.get('store'):
        f['store'] = 'int'
    if start.get('extra_len'):
        f['assigned_over'] = 'longer record'
    f.update(kw)
    return f


def on_exc(start, hist, e, R):
    pt = {'kind': 'bfs', 'dtype': start['dtype'], 'NFFT': start['NFFT'], 'v0': start['v0'], 'history': list(hist), 'cls': start.get('cls'),
          'store': start.get('store'), 'extra_len': start.get('extra_len')}
    R.viol('no_exception', _feats(start, hist, to=hist[-1], exc=type(e).__name__), pt, repr(e), None,
           'assigning sides raised')


def check_state(start, hist, R):
    pt = {'kind': 'bfs', 'dtype': start['dtype'], 'NFFT': start['NFFT'], 'v0': start['v0'], 'history': list(hist), 'cls': start.get('cls'),
          'store': start.get('store'), 'extra_len': start.get('extra_len')}
    eval_point(pt, R)


def _vars_snapshot(obj):
    return bfs.canon(obj)


def eval_point(pt, R):
    kind = pt['kind']
    if kind == 'bfs':
        start = {'dtype': pt['dtype'], 'NFFT': int(pt['NFFT']), 'v0': np.asarray(pt['v0'], dtype=float), 'cls': pt.get('cls'),
                 'store': pt.get('store'), 'extra_len': pt.get('extra_len')}
        hist = tuple(pt['history'])
        NFFT = start['NFFT']
        dflt = default_sides(start['dtype'])
        R.point(pt)
        try:
            obj = build(start, hist)
        except Exception as e:
            R.viol('no_exception', _feats(start, hist, exc=type(e).__name__), pt, repr(e), None, 'history raised')
            return
        cur = obj.sides
        path = '->'.join((dflt,) + tuple(dflt if h == 'default' else h for h in hist)) if len(hist) <= 2 else 'len>2'
        f0 = _feats(start, hist, sides=cur)
        # -- length and axis
        try:
            stored = np.asarray(obj.psd, dtype=float)
            fr = np.asarray(obj.frequencies(), dtype=float)
        except Exception as e:
            R.viol('no_exception', dict(f0, exc=type(e).__name__), pt, repr(e), None, 'reading psd/frequencies raised')
            return
        R.check(len(stored) == len(fr), 'length', f0, pt, len(stored), len(fr), 'len(psd) != len(frequencies())')
        admissible = SIDES if start['dtype'] == 'real' else SIDES[1:]
        for t in admissible:
            ax = rs.axis(t, NFFT, 1.0)
            try:
                got = np.asarray(obj.frequencies(t), dtype=float)
            except Exception as e:
                R.viol('axis', dict(f0, axis=t, exc=type(e).__name__), pt, repr(e), ax, 'frequencies() raised')
                continue
            R.check(close(got, ax, 1e-12, 1e-15), 'axis', _feats(start, hist, axis=t), pt, got, ax,
                    'frequencies(%s) is not the k*sampling/NFFT grid' % t, outs=(got,))
        # -- stored PSD == direct conversion of the original vector (alignment + path independence + round trip)
        exp = rs.convert(start['v0'], dflt, cur, NFFT)
        R.check(close(stored, exp, ULP4, 0.0), 'stored', dict(f0, path=path), pt, stored, exp,
                'stored PSD after the history != direct conversion of the original PSD to %s' % cur,
                outs=(stored, cur), err=relerr(stored, exp), model_ctx={'start': start, 'hist': hist})
        tot = float(np.sum(start['v0']))
        R.check(abs(float(np.sum(stored)) - tot) <= 1e-12 * abs(tot), 'power', dict(f0, path=path), pt, float(np.sum(stored)), tot,
                'total power not preserved', model_ctx={'start': start, 'hist': hist})
        # -- get_converted_psd: value and purity
        for t in admissible:
            exp_t = rs.convert(start['v0'], dflt, t, NFFT)
            before = _vars_snapshot(obj)
            try:
                got = np.asarray(obj.get_converted_psd(t), dtype=float)
            except Exception as e:
                R.viol('getconv', dict(f0, to=t, exc=type(e).__name__), pt, repr(e), exp_t, 'get_converted_psd raised')
                continue
            R.calls()
            R.check(close(got, exp_t, ULP4, 0.0), 'getconv', dict(f0, to=t), pt, got, exp_t,
                    'get_converted_psd(%s) from sides=%s != direct conversion of the original PSD' % (t, cur), outs=(got, t),
                    err=relerr(got, exp_t), model_ctx={'start': start, 'hist': hist, 'to': t})
            R.check(_vars_snapshot(obj) == before, 'getconv_pure', dict(f0, to=t), pt, None, None,
                    'get_converted_psd changed the object')
    elif kind == 'helper':
        from spectrum import tools
        name = pt['name']
        v = np.asarray(pt['v'], dtype=float)
        L = len(v)
        R.point(pt)
        if name == 'twosided_2_centerdc':
            inp, exp = v, rs.convert(v, 'twosided', 'centerdc', L)
        elif name == 'centerdc_2_twosided':
            inp, exp = v, rs.convert(v, 'centerdc', 'twosided', L)
        elif name == 'onesided_2_twosided':
            NFFT = 2 * (L - 1)
            inp, exp = v, rs.convert(v, 'onesided', 'twosided', NFFT)
        else:
            NFFT = 2 * (L - 1)     # symmetric two-sided image of the one-sided vector v
            inp, exp = rs.convert(v, 'onesided', 'twosided', NFFT), v
        feats = {'helper': name, 'len': 'odd' if len(inp) % 2 else 'even'}
        R.calls()
        arg = inp.copy()
        if pt.get('container') == 'int64':
            arg = inp.astype(np.int64)
            feats['container'] = 'int'
        elif pt.get('container') == 'intlist':
            arg = [int(t) for t in inp]
            feats['container'] = 'int'
        try:
            got = np.asarray(getattr(tools, name)(arg), dtype=float)
        except Exception as e:
            R.viol('helper', dict(feats, exc=type(e).__name__), pt, repr(e), exp, 'helper raised on its domain')
            return
        R.check(close(got, exp, ULP4, 0.0), 'helper', feats, pt, got, exp,
                'tools.%s does not carry values to the entry with the same frequency' % name, outs=(got, name),
                err=relerr(got, exp), model_ctx={'inp': inp})
    elif kind == 'wide':
        from spectrum.psd import Spectrum
        dt, NFFT, fs = pt['dtype'], int(pt['NFFT']), float(pt['fs'])
        dflt = default_sides(dt)
        L = len(rs.bins(dflt, NFFT))
        v0 = 100.0 + np.arange(L)
        data = np.arange(1.0, NFFT + 1.0) * (1.0 if dt == 'real' else (1 + 1j))
        feats = {'dtype': dt, 'nfft': 'odd' if NFFT % 2 else 'even', 'range': 'wide'}
        R.point(pt)
        admissible = SIDES if dt == 'real' else SIDES[1:]
        for t in admissible:
            R.calls(3)
            try:
                s1 = Spectrum(data, NFFT=NFFT, sampling=fs)
                s1.psd = v0.copy()
                got = np.asarray(s1.get_converted_psd(t), dtype=float)
                fr = np.asarray(s1.frequencies(t), dtype=float)
                s1.sides = t
                stored = np.asarray(s1.psd, dtype=float)
                fr2 = np.asarray(s1.frequencies(), dtype=float)
            except Exception as e:
                R.viol('no_exception', dict(feats, to=t, exc=type(e).__name__), pt, repr(e), None, 'conversion raised')
                continue
            exp = rs.convert(v0, dflt, t, NFFT)
            ax = rs.axis(t, NFFT, fs)
            R.check(got.shape == exp.shape and close(got, exp, ULP4, 0.0) and stored.shape == exp.shape and close(stored, exp, ULP4, 0.0), 'getconv', dict(feats, to=t), pt, got, exp,
                    'conversion to %s != direct conversion of the original PSD (NFFT %d, sampling %g)' % (t, NFFT, fs), outs=(got, t))
            R.check(len(fr) == len(exp) and len(fr2) == len(exp), 'length', dict(feats, to=t), pt, [len(fr), len(fr2)], len(exp), 'len(frequencies) != len(converted psd)')
            if len(fr) == len(ax):
                R.check(close(fr, ax, 1e-12, 1e-15 * fs), 'axis', dict(feats, axis=t), pt, fr, ax, 'frequencies(%s) is not the k*sampling/NFFT grid' % t)
    elif kind == 'helper_odd':
        # one-sided PSD of an odd NFFT (no Nyquist entry): documented flag odd=True, given as bool / numpy.bool_ / 1
        from spectrum import tools
        v = np.asarray(pt['v'], dtype=float)
        L = len(v)
        NFFT = 2 * L - 1
        exp = rs.convert(v, 'onesided', 'twosided', NFFT)
        flag = {'bool': True, 'np.bool_': np.bool_(True), 'int': 1}[pt['flag']]
        arg = {'float': v.copy(), 'int64': v.astype(np.int64), 'intlist': [int(t) for t in v]}[pt['container']]
        feats = {'helper': 'onesided_2_twosided', 'odd': pt['flag'], 'container': 'float' if pt['container'] == 'float' else 'int'}
        R.point(pt)
        R.calls()
        try:
            got = np.asarray(tools.onesided_2_twosided(arg, odd=flag), dtype=float)
        except Exception as e:
            R.viol('helper', dict(feats, exc=type(e).__name__), pt, repr(e), exp, 'helper raised on its domain')
            return
        R.check(close(got, exp, ULP4, 0.0), 'helper', feats, pt, got, exp,
                'tools.onesided_2_twosided(odd=True) does not split every non-DC value equally between +f and -f on the 2L-1 grid', outs=(got, 'odd'))
        R.calls()
        try:
            back = np.asarray(tools.twosided_2_onesided(np.asarray(exp)), dtype=float)
            R.check(close(back, v, ULP4, 0.0), 'helper', dict(feats, helper='twosided_2_onesided', odd='len'), pt, back, v,
                    'tools.twosided_2_onesided on an odd-length two-sided PSD does not fold -f onto +f')
        except Exception as e:
            R.viol('helper', dict(feats, helper='twosided_2_onesided', exc=type(e).__name__), pt, repr(e), v, 'helper raised on its domain')
    elif kind == 'cshift':
        from spectrum import tools
        v = np.asarray(pt['v'], dtype=float)
        off = pt['offset']
        R.point(pt)
        R.calls()
        exp = np.roll(v, int(off))
        try:
            got = np.asarray(tools.cshift(v.copy(), off))
        except Exception as e:
            R.viol('cshift', {'exc': type(e).__name__}, pt, repr(e), exp, 'cshift raised')
            return
        R.check(close(got, exp, 0.0, 0.0), 'cshift', {'float_offset': isinstance(off, float)}, pt, got, exp,
                'cshift is not a circular right shift', outs=(got,))
    elif kind == 'arma':
        from spectrum import arma2psd
        A = None if pt['A'] is None else np.asarray(pt['A'])
        B = None if pt['B'] is None else np.asarray(pt['B'])
        NFFT = int(pt['NFFT'])
        R.point(pt)
        R.calls(2)
        feats = {'nfft': 'odd' if NFFT % 2 else 'even'}
        try:
            two = np.asarray(arma2psd(A, B, rho=1.5, T=2.0, NFFT=NFFT))
            cen = np.asarray(arma2psd(A, B, rho=1.5, T=2.0, NFFT=NFFT, sides='centerdc'))
        except Exception as e:
            R.viol('arma2psd_centerdc', dict(feats, exc=type(e).__name__), pt, repr(e), None, 'arma2psd raised')
            return
        exp = rs.convert(two, 'twosided', 'centerdc', NFFT)
        R.check(close(cen, exp, ULP4, 0.0), 'arma2psd_centerdc', feats, pt, cen, exp,
                "arma2psd(sides='centerdc') is not the two-sided result re-ordered onto the centred axis", outs=(cen,),
                err=relerr(cen, exp), model_ctx={'two': two})
    else:
        raise ValueError(kind)


def repro(pt):
    if pt['kind'] != 'bfs':
        return None
    lines = ['import numpy as np', 'from spectrum.psd import Spectrum',
             'data = np.arange(1., %d+1.)%s' % (pt['NFFT'], '' if pt['dtype'] == 'real' else '*(1+1j)'),
             's = Spectrum(data, NFFT=%d); s.psd = np.array(%r)' % (pt['NFFT'], np.asarray(pt['v0']).tolist())]
    for ev in pt['history']:
        lines.append('s.sides = %r' % ev)
    lines.append('print(s.sides, s.psd, s.frequencies())')
    return '\n'.join(lines)
