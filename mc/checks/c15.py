"""C15  MA and ARMA estimators return valid, invertible models.  Engine EX."""
import itertools
import numpy as np

from .. import alphabet as A
from .. import classes as C
from ..core import close, relerr
from ..ref import corr as rc, lp

PROP = 'C15'
RULE = ('EX engine: ma(x,Q,M) for EVERY 0<Q<M<=Mmax and arma_estimate(x,P,Q,lag) for EVERY (P,Q,lag) with P,Q in 1..6 inside the stated domain (both sides of '
        'the P<=4 solver switch), on the fixed noise-like families and on ARMA-generated records (every pole/zero pair of a small lattice driving the fixed Weyl '
        'sequence), real and complex, N in {16,17,32,64}; classes parma, pma, pburg, pyule, pcovar, pmodcovar x NFFT in {16,17,64} x sampling alphabet: '
        'coefficient counts, invertibility (zeros of [1,b] inside the unit circle), positive finite variance, modified Yule-Walker least squares for P=Q against '
        'a dense reference on the double-loop unbiased autocorrelation, and PSD == (g*rho/fs)|B|^2/|A|^2 of the exposed coefficients. Distinct = digests of outputs')
ASSUMPTIONS = ['arma_estimate / parma are judged for amplitudes whose eighth power is representable (mean power within 1e-70..1e70); ma / pma and the AR classes over 1e-120..1e120',
               'non-degenerate data: noise-like families and ARMA-generated records only (exactly predictable records give a zero residual)',
               'besides the three stated inequalities the modified Yule-Walker system must be strictly over-determined: lag - Q > P',
               'modified Yule-Walker reference: least squares over lags Q+1..lag, tolerance 1e-8 * condition number (<= 1e8)',
               'PSD proportionality is checked with g = 2 for one-sided (real data) spectra and g = 1 for two-sided ones']


def bounds(tier):
    q = tier == 'quick'
    return {'N': [16, 17] if q else [16, 17, 32, 64], 'P,Q': '1..6', 'lag': 'every admissible value up to min(N-1, P+Q+8)', 'ma_M_max': 8 if q else 12,
            'class_NFFT': [16, 17, 64], 'long_records_N': [160] if q else [160, 300], 'representations': 'float64/complex128, int16, int64, float32/complex64, amplitudes 1e-120 and 1e120', 'sampling': A.FS if not q else A.FS[:3]}


def expected_clauses(tier):
    return ['ma_valid', 'arma_valid', 'arma_myw', 'class_psd']


def arma_records(N, cplx):
    """ARMA-generated records: every (pole, zero) of a small lattice, driven by the fixed Weyl sequence."""
    from scipy.signal import lfilter
    e = A.eta(N + 50, cplx)
    out = []
    poles = [0.5, -0.9, 0.7 * np.exp(1j * np.pi / 3)]
    zeros = [0.5, -0.5]
    for p in poles:
        for z in zeros:
            if np.iscomplexobj(p) and not cplx:
                a = np.real(np.poly([p, np.conj(p)]))
            else:
                a = np.poly([p])
            b = np.poly([z])
            y = lfilter(b, a, e)[50:]
            out.append(('arma(p=%s,z=%s)' % (np.round(p, 3), z), y if cplx else np.real(y)))
    return out


def records(N, cplx, tier):
    fam = A.gen_cplx(N) if cplx else A.gen_real(N)
    fam = [f for f in fam if f[0].startswith('weyl') or f[0].startswith('cweyl')]
    if tier == 'quick':
        fam = fam[:3]
    ints = [] if cplx else [r for r in A.pcm(N) if r[0] == 'pcm16_noise'] + A.pcm64(N)     # integer sample dtypes (noise-like records)
    # representation variants of the first noise-like record: single precision (float32 / complex64) and the far ends of the float range
    return fam + arma_records(N, cplx) + ints + A.single(fam, 1) + A.extreme(fam, 1) + A.extreme(fam, 1, (1e-30, 1e30))


def shards(tier):
    q = tier == 'quick'
    out = []
    for N in ([16, 17] if q else [16, 17, 32, 64]):
        for cplx in (False, True):
            out.append(('ma', N, cplx))
            for P in range(1, 7):
                out.append(('arma', N, cplx, P))
            out.append(('cls', N, cplx))
    for N in ([160] if q else [160, 300]):
        for cplx in (False, True):
            out.append(('long', N, cplx))       # long records: an implementation may switch algorithm with the record length
    return out


def run_shard(desc, R, tier):
    kind, N, cplx = desc[:3]
    recs = records(N, cplx, tier)
    if kind == 'long':
        for name, x in recs[:1] + arma_records(N, cplx)[:2]:
            for P, Q in ((1, 1), (2, 2), (3, 3), (5, 5), (2, 1), (5, 2)):
                for lag in (P + Q + 1, P + Q + 4, P + Q + 8):
                    eval_point({'kind': 'arma', 'x': x, 'P': P, 'Q': Q, 'lag': lag, 'name': name}, R)
            for Q, M in ((1, 4), (3, 10)):
                eval_point({'kind': 'ma', 'x': x, 'Q': Q, 'M': M, 'name': name}, R)
    elif kind == 'ma':
        mmax = min(N - 1, 8 if tier == 'quick' else 12)
        for name, x in recs:
            for M in range(2, mmax + 1):
                for Q in range(1, M):
                    eval_point({'kind': 'ma', 'x': x, 'Q': Q, 'M': M, 'name': name}, R)
    elif kind == 'arma':
        P = desc[3]
        for name, x in recs:
            for Q in range(1, 7):
                for lag in range(Q, min(N - 1, P + Q + 8) + 1):
                    eval_point({'kind': 'arma', 'x': x, 'P': P, 'Q': Q, 'lag': lag, 'name': name}, R)
    else:
        cfgs = {'parma': [dict(P=2, Q=2, lag=8), dict(P=5, Q=1, lag=7), dict(P=1, Q=3, lag=6)], 'pma': [dict(Q=2, M=6), dict(Q=3, M=7)],
                'pburg': [dict(order=3)], 'pyule': [dict(order=3)], 'pcovar': [dict(order=3)], 'pmodcovar': [dict(order=3)]}
        for name, x in recs:
            for cls, lst in cfgs.items():
                for o in lst:
                    for nf in (16, 17, 64):
                        for fs in (A.FS[:3] if tier == 'quick' else A.FS):
                            eval_point({'kind': 'cls', 'cls': cls, 'o': o, 'x': x, 'NFFT': nf, 'fs': fs, 'name': name}, R)


def fourth_power_ok(x):
    """arma_estimate fits an AR model to autocorrelation LAGS with the fast covariance recursion, which forms products of energies of
    those lags: degree eight in the data amplitude.  The admissible amplitude range is the one whose eighth power is representable
    (about 1e-37 .. 1e37; the pinned tree returns NaN or silently inaccurate coefficients outside it); ma() is of degree two."""
    pw = float(np.mean(np.abs(A.prom(x)) ** 2))
    return 1e-70 < pw < 1e70


def in_arma_domain(N, P, Q, lag):
    return Q <= lag and lag + 2 * P - Q <= N and 2 * Q < N - P and lag - Q > P


def eval_point(pt, R):
    import spectrum
    kind = pt['kind']
    x = np.asarray(pt['x'])
    N = len(x)
    cplx = np.iscomplexobj(x)
    dt = 'complex' if cplx else 'real'
    single = A.is_single(x)
    u = 3e4 if single else 1.0            # float32 / complex64 records may be processed in single precision
    if single:
        dt += '-single'
    if kind == 'ma':
        Q, M = int(pt['Q']), int(pt['M'])
        if not (0 < Q < M < N):
            R.point(pt, indomain=False)
            R.skip('ma_domain')
            return
        R.point(pt)
        R.calls()
        feats = {'dtype': dt}
        try:
            b, rho = spectrum.ma(x, Q, M)
            b = np.asarray(b)
        except Exception as e:
            R.viol('ma_valid', dict(feats, exc=type(e).__name__), pt, repr(e), None, 'ma raised inside its domain')
            return
        mr = lp.max_root(np.concatenate([[1.0], b])) if len(b) else 0.0
        R.check(b.shape == (Q,) and mr < 1.0 and np.isfinite(rho) and np.real(rho) > 0 and abs(np.imag(rho)) == 0, 'ma_valid', feats, pt,
                [len(b), mr, rho], [Q, '<1', '>0'], 'ma: wrong number of coefficients, zero outside the unit circle or non-positive variance', outs=(b, rho))
    elif kind == 'arma':
        P, Q, lag = int(pt['P']), int(pt['Q']), int(pt['lag'])
        if not in_arma_domain(N, P, Q, lag):
            R.point(pt, indomain=False)
            R.skip('arma_domain')
            return
        if not fourth_power_ok(x):
            R.point(pt, indomain=False)
            R.skip('eighth_power_of_amplitude_not_representable')
            return
        feats = {'dtype': dt, 'solver': 'marple(P<=4)' if P <= 4 else 'lstsq(P>4)'}
        # reference modified Yule-Walker system (P == Q): rows m = Q+1..lag
        r = rc.correlation(A.prom(x), A.prom(x), lag, 'unbiased')
        ref_a = None
        if P == Q:
            rows = range(Q + 1, lag + 1)
            Mx = np.array([[r[m - j] for j in range(1, P + 1)] for m in rows])
            rhs = -np.array([r[m] for m in rows])
            sv = np.linalg.svd(Mx, compute_uv=False)
            cond = sv[0] / sv[-1] if sv[-1] > 0 else np.inf
            if cond > (1e3 if single else 1e8):
                R.point(pt, indomain=False)
                R.skip('myw_ill_conditioned')
                return
            ref_a = np.linalg.lstsq(Mx, rhs, rcond=None)[0]
        R.point(pt)
        R.calls()
        try:
            a, b, rho = spectrum.arma_estimate(x, P, Q, lag)
            a, b = np.asarray(a), np.asarray(b)
        except Exception as e:
            R.viol('arma_valid', dict(feats, exc=type(e).__name__), pt, repr(e), None, 'arma_estimate raised inside its domain')
            return
        mr = lp.max_root(np.concatenate([[1.0], b])) if len(b) else 0.0
        R.check(a.shape == (P,) and b.shape == (Q,) and mr < 1.0 and np.isfinite(rho) and np.real(rho) > 0, 'arma_valid', feats, pt,
                [len(a), len(b), mr, rho], [P, Q, '<1', '>0'], 'arma_estimate: wrong coefficient counts, MA zero outside the unit circle or non-positive variance',
                outs=(a, b, rho))
        if ref_a is not None and a.shape == (P,):
            R.check(close(a, ref_a, 1e-8 * cond * u, 1e-9 * u), 'arma_myw', feats, pt, a, ref_a,
                    'AR part != least-squares solution of the modified Yule-Walker equations over unbiased lags Q+1..lag', err=relerr(a, ref_a))
    else:
        cls, o, nf, fs = pt['cls'], pt['o'], int(pt['NFFT']), float(pt['fs'])
        if cls == 'parma' and not in_arma_domain(N, o['P'], o['Q'], o['lag']):
            R.point(pt, indomain=False)
            R.skip('arma_domain')
            return
        if cls == 'parma' and not fourth_power_ok(x):
            R.point(pt, indomain=False)
            R.skip('eighth_power_of_amplitude_not_representable')
            return
        feats = {'cls': cls, 'dtype': dt, 'nfft': 'odd' if nf % 2 else 'even'}
        R.point(pt)
        R.calls()
        try:
            obj = C.make(cls, x, NFFT=nf, sampling=fs, scale_by_freq=False, **o)
            psd = np.asarray(obj.psd)
        except Exception as e:
            R.viol('class_psd', dict(feats, exc=type(e).__name__), pt, repr(e), None, 'class raised inside its domain')
            return
        ar = getattr(obj, 'ar', None)
        ma_ = getattr(obj, 'ma', None)
        rho = getattr(obj, 'rho', None)
        w = np.exp(-2j * np.pi * np.arange(nf) / nf)
        Af = np.ones(nf, dtype=complex)
        Bf = np.ones(nf, dtype=complex)
        if ar is not None and cls != 'pma':
            for k, v in enumerate(np.asarray(ar)):
                Af = Af + v * w ** (k + 1)
        if ma_ is not None:
            for k, v in enumerate(np.asarray(ma_)):
                Bf = Bf + v * w ** (k + 1)
        shape = np.abs(Bf) ** 2 / np.abs(Af) ** 2
        L = len(psd)
        g = 1.0 if cplx else 2.0
        shape = shape[:L]
        ok = np.all(np.isfinite(psd)) and np.all(psd > 0) and not np.iscomplexobj(psd)
        if ok and rho is not None:
            exp = g * float(np.real(rho)) / fs * shape
            ok = close(psd, exp, 1e-9, 0.0)
            note = 'PSD != (g*rho/sampling) |B|^2/|A|^2 of the exposed coefficients'
        elif ok:
            ratio = psd / shape
            exp = shape * ratio[0]
            ok = close(ratio, np.full(L, ratio[0]), 1e-9, 0.0)
            note = 'PSD not proportional to |B|^2/|A|^2 of the exposed coefficients'
        else:
            exp = shape
            note = 'PSD not strictly positive and finite'
        R.check(ok, 'class_psd', dict(feats, rho='exposed' if rho is not None else 'hidden'), pt, psd, exp, note, outs=(psd,))
