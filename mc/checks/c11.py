"""C11  Linear-prediction representations convert losslessly into each other.  Engine EX."""
import itertools
import numpy as np

from ..core import close, relerr
from ..ref import lp

PROP = 'C11'
RULE = ('EX engine: every reflection-coefficient vector over a 5-letter alphabet (real and complex) of every order up to the bound, structured '
        'families (all equal, alternating, single non-zero; c in {0.3,0.9,0.98}) to order 16, r0 in {1, 2.5}; on each point all six conversions among '
        '{autocorrelation, polynomial+final error, reflection coefficients+r0} are executed and compared with an independent reference (dense normal '
        'equations, textbook step-up/step-down) and with each other (compositions, round trips); rc<->lar, rc<->is on the alphabet vectors and the grid '
        '-0.98..0.98; poly<->lsf on every real minimum-phase polynomial. Distinct = digests of returned arrays')
ASSUMPTIONS = ['domain: |k_i| < 1 (alphabet moduli <= 0.98), kappa = prod 1/(1-|k_i|^2) <= 1e6',
               'tolerance 1e-8*kappa relative; LSF round trip 1e-6*kappa (numpy.roots conditioning), LSF only for real polynomials']


def bounds(tier):
    q = tier == 'quick'
    return {'rc_exhaustive_order': '1..4 real, 1..3 complex' if q else '1..6 real, 1..5 complex',
            'rc_families_order': '7..10' if q else '7..16', 'r0': [1e-18, 1.0, 2.5, 1e12, 1e-200, 1e200], 'optional_arguments': 'rc2poly without r0; integer final error in poly2ac / poly2rc', 'lar_is_grid': '-0.98..0.98 step 0.01',
            'lsf': 'real vectors above, order <= %d exhaustive + families' % (4 if q else 6)}


def expected_clauses(tier):
    return ['ac2poly', 'ac2rc', 'rc2poly', 'rc2ac', 'poly2rc', 'poly2ac', 'commute', 'roundtrip', 'lar', 'is', 'lsf', 'lsf_order']


def shards(tier):
    q = tier == 'quick'
    out = []
    for cplx, pmax in ((False, 4 if q else 6), (True, 3 if q else 5)):
        for p in range(1, pmax + 1):
            if p >= 5:
                for i0 in range(5):
                    out.append(('rc', cplx, p, [i0]))
            else:
                out.append(('rc', cplx, p, []))
    for p in range(7, (10 if q else 16) + 1):
        out.append(('fam', p))
    out.append(('grid',))
    return out


def run_shard(desc, R, tier):
    kind = desc[0]
    if kind == 'rc':
        _, cplx, p, prefix = desc
        alpha = lp.RC_CPLX if cplx else lp.RC_REAL
        for t in itertools.product(alpha, repeat=p - len(prefix)):
            k = np.array([alpha[i] for i in prefix] + list(t), dtype=complex if cplx else float)
            for r0 in (1e-18, 1.0, 2.5, 1e12) + ((1e-200, 1e200) if p <= (3 if tier == 'quick' else 4) else ()):
                eval_point({'kind': 'lp', 'k': k, 'r0': r0}, R)
            if not cplx:
                eval_point({'kind': 'lar_is', 'k': k}, R)
                eval_point({'kind': 'lsf', 'k': k}, R)
    elif kind == 'fam':
        p = desc[1]
        for cplx in (False, True):
            for name, k in lp.rc_families(p, cplx):
                eval_point({'kind': 'lp', 'k': k, 'r0': [1e-18, 1.0, 1e12, 1e-200, 1e200][p % 5], 'family': name}, R)
                if not cplx:
                    eval_point({'kind': 'lar_is', 'k': k}, R)
                    eval_point({'kind': 'lsf', 'k': k, 'family': name}, R)
    elif kind == 'grid':
        g = np.round(np.arange(-0.98, 0.9801, 0.01), 2)
        for v in g:
            eval_point({'kind': 'lar_is', 'k': np.array([v])}, R)
        eval_point({'kind': 'lar_is', 'k': g}, R)
    else:
        raise ValueError(desc)


def _call(R, clause, feats, pt, fn, *args):
    """Call a conversion; an exception inside the domain is a violation, and so is a modified argument (conversions are functions)."""
    R.calls()
    saved = [np.array(a, copy=True) if isinstance(a, np.ndarray) else a for a in args]
    try:
        out = fn(*args)
    except Exception as e:
        R.viol(clause, dict(feats, exc=type(e).__name__), pt, repr(e), None, '%s raised inside its domain' % clause)
        return None, False
    for a, b in zip(args, saved):
        if isinstance(a, np.ndarray) and not np.array_equal(a, b):
            R.viol(clause, dict(feats, sub='argument_modified'), pt, a, b, '%s modified its input array in place' % getattr(fn, '__name__', clause))
    return out, True


def eval_point(pt, R):
    from spectrum import linear_prediction as L
    kind = pt['kind']
    k = np.asarray(pt['k'])
    cplx = np.iscomplexobj(k)
    p = len(k)
    feats = {'dtype': 'complex' if cplx else 'real', 'order': '1' if p == 1 else ('2' if p == 2 else '>2')}
    if kind == 'lp':
        kap = lp.kappa(k)
        if kap > 1e6:
            R.point(pt, indomain=False)
            R.skip('kappa>1e6')
            return
        R.point(pt)
        r0 = float(pt['r0'])
        tol = 1e-8 * max(1.0, kap)
        # reference triple
        r = lp.rc2ac(k, r0)
        a = lp.stepup(k)
        ef = lp.err_from_rc(k, r0)

        def cmp(clause, obs, ref, what, atol=0.0):
            obs = np.asarray(obs)
            return R.check(obs.shape == np.asarray(ref).shape and close(obs, ref, tol, tol * atol), clause, feats, pt, obs, ref, what,
                           outs=(obs, clause), err=relerr(obs, ref, tol * atol) if obs.shape == np.asarray(ref).shape else None)

        # ac -> poly, ac -> rc
        out, ok = _call(R, 'ac2poly', feats, pt, L.ac2poly, r)
        a_ac = None
        if ok:
            a_ac, e_ac = out
            cmp('ac2poly', a_ac, a, 'ac2poly polynomial != reference', 1.0)
            cmp('ac2poly', np.array([e_ac]), np.array([ef]), 'ac2poly final error != r0*prod(1-|k|^2)', r0)
        out, ok = _call(R, 'ac2rc', feats, pt, L.ac2rc, r)
        k_ac = None
        if ok:
            k_ac, r0_ac = out
            cmp('ac2rc', k_ac, k, 'ac2rc reflection coefficients != reference', 1.0)
            cmp('ac2rc', np.array([np.real(r0_ac)]), np.array([r0]), 'ac2rc zero-lag != r[0]')
        # integer-valued autocorrelation (e.g. lag sums of integer data): same triple as for the float copy
        if not cplx and p <= 3 and r0 == 1.0:
            ri = np.round(r * 1000).astype(np.int64)
            if lp.toeplitz(ri.astype(float)).shape[0] and np.linalg.eigvalsh(lp.toeplitz(ri.astype(float))).min() > 1.0:
                refa, refe = None, None
                kk = lp.rc_from_ac_dense(ri.astype(float))
                out, ok = _call(R, 'ac2rc', dict(feats, input='int'), pt, L.ac2rc, ri)
                if ok:
                    cmp('ac2rc', np.asarray(out[0], dtype=float), kk, 'ac2rc on an integer autocorrelation != reference', 1.0)
                out, ok = _call(R, 'ac2poly', dict(feats, input='int'), pt, L.ac2poly, ri)
                if ok:
                    cmp('ac2poly', np.asarray(out[0], dtype=float), lp.stepup(kk), 'ac2poly on an integer autocorrelation != reference', 1.0)
        # rc -> poly, rc -> ac
        out, ok = _call(R, 'rc2poly', feats, pt, L.rc2poly, k, r0)
        a_rc = None
        if ok:
            a_rc, e_rc = out
            cmp('rc2poly', a_rc, a, 'rc2poly polynomial != reference step-up', 1.0)
            cmp('rc2poly', np.array([np.real(e_rc)]), np.array([ef]), 'rc2poly final error != r0*prod(1-|k|^2)', r0)
        if r0 == 1.0:
            # the zero-lag argument is optional: the polynomial must not depend on it being given
            out, ok = _call(R, 'rc2poly', dict(feats, r0='omitted'), pt, L.rc2poly, k)
            if ok:
                cmp('rc2poly', out[0], a, 'rc2poly(k) without r0: polynomial != reference step-up', 1.0)
        out, ok = _call(R, 'rc2ac', feats, pt, L.rc2ac, k, r0)
        r_rc = None
        if ok:
            r_rc = np.asarray(out)
            cmp('rc2ac', r_rc, r.astype(complex), 'rc2ac autocorrelation != reference', r0)
        # poly -> rc, poly -> ac
        out, ok = _call(R, 'poly2rc', feats, pt, L.poly2rc, a, ef)
        k_po = None
        if ok:
            k_po = np.asarray(out)
            cmp('poly2rc', k_po, k, 'poly2rc != reference step-down', 1.0)
        out, ok = _call(R, 'poly2ac', feats, pt, L.poly2ac, a, ef)
        r_po = None
        if ok:
            r_po = np.asarray(out)
            cmp('poly2ac', r_po, r.astype(complex), 'poly2ac autocorrelation != reference', r0)
        if r0 == 2.5:
            # a final error given as an integer (Python int / numpy integer): same conversions as for the float 3.0
            gain = float(np.prod(1.0 - np.abs(k) ** 2))
            r3 = lp.rc2ac(k, 3.0 / gain)
            for ef_int, tag in ((3, 'int'), (np.int64(3), 'np.int64')):
                out, ok = _call(R, 'poly2ac', dict(feats, efinal=tag), pt, L.poly2ac, a, ef_int)
                if ok:
                    cmp('poly2ac', np.asarray(out), r3.astype(complex), 'poly2ac with an integer final error != reference', 3.0 / gain)
                out, ok = _call(R, 'poly2rc', dict(feats, efinal=tag), pt, L.poly2rc, a, ef_int)
                if ok:
                    cmp('poly2rc', np.asarray(out), k, 'poly2rc with an integer final error != reference step-down', 1.0)
        # compositions on the implementation's own outputs (commutation, round trips)
        if k_ac is not None and a_ac is not None:
            out, ok = _call(R, 'commute', feats, pt, L.rc2poly, k_ac, r0)
            if ok:
                cmp('commute', out[0], a_ac, 'ac->rc->poly != ac->poly', 1.0)
        if a_ac is not None:
            out, ok = _call(R, 'roundtrip', feats, pt, L.poly2ac, a_ac, e_ac)
            if ok:
                cmp('roundtrip', out, r.astype(complex), 'ac->poly->ac != identity', r0)
        if r_rc is not None:
            out, ok = _call(R, 'roundtrip', feats, pt, L.ac2rc, r_rc if cplx else np.real(r_rc))
            if ok:
                cmp('roundtrip', out[0], k, 'rc->ac->rc != identity', 1.0)
        if k_po is not None:
            out, ok = _call(R, 'roundtrip', feats, pt, L.rc2poly, k_po, r0)
            if ok:
                cmp('roundtrip', out[0], a, 'poly->rc->poly != identity', 1.0)
        if r_po is not None and a_rc is not None:
            out, ok = _call(R, 'commute', feats, pt, L.rc2ac, k, r0)
            if ok:
                cmp('commute', out, r_po, 'rc->ac != rc->poly->ac', r0)
    elif kind == 'lar_is':
        R.point(pt)
        g, ok = _call(R, 'lar', feats, pt, L.rc2lar, k)
        if ok:
            ref = np.log((1 + k) / (1 - k))
            R.check(close(g, ref, 1e-9, 1e-12), 'lar', feats, pt, g, ref, 'rc2lar != log((1+k)/(1-k))', outs=(g,))
            back, ok2 = _call(R, 'lar', feats, pt, L.lar2rc, g)
            if ok2:
                R.check(close(back, k, 1e-9, 1e-12), 'lar', dict(feats, sub='inverse'), pt, back, k, 'lar2rc(rc2lar(k)) != k')
        s, ok = _call(R, 'is', feats, pt, L.rc2is, k)
        if ok:
            ref = 2 / np.pi * np.arcsin(k)
            R.check(close(s, ref, 1e-9, 1e-12), 'is', feats, pt, s, ref, 'rc2is != (2/pi) asin(k)', outs=(s,))
            back, ok2 = _call(R, 'is', feats, pt, L.is2rc, s)
            if ok2:
                R.check(close(back, k, 1e-9, 1e-12), 'is', dict(feats, sub='inverse'), pt, back, k, 'is2rc(rc2is(k)) != k')
    elif kind == 'lsf':
        kap = lp.kappa(k)
        a = lp.stepup(k)
        # distinct-root conditioning: skip polynomials whose sum/difference roots nearly collide (ill-posed for numpy.roots)
        if kap > 1e4:
            R.point(pt, indomain=False)
            R.skip('lsf_kappa>1e4')
            return
        R.point(pt)
        lsf, ok = _call(R, 'lsf', feats, pt, L.poly2lsf, a.copy())
        if not ok:
            return
        lsf = np.asarray(lsf, dtype=float)
        R.check(len(lsf) == p and np.all(np.diff(lsf) > 0) and np.all(lsf > 0) and np.all(lsf < np.pi), 'lsf_order', feats, pt, lsf,
                'p strictly increasing values in (0, pi)', 'line spectral frequencies not strictly increasing inside (0, pi) or wrong count', outs=(lsf,))
        if len(lsf) != p:
            return
        # reference: the LSFs are the angles of the unit-circle roots of P(z)=A(z)-z^-(p+1)A(1/z), Q(z)=A(z)+z^-(p+1)A(1/z)
        a1 = np.concatenate([a, [0.0]])
        Pz, Qz = a1 - a1[::-1], a1 + a1[::-1]
        ang = np.concatenate([np.angle(np.roots(Pz)), np.angle(np.roots(Qz))])
        ref = np.sort(ang[(ang > 1e-9) & (ang < np.pi - 1e-9)])
        gap = float(np.min(np.diff(np.concatenate([[0.0], ref, [np.pi]])))) if len(ref) == p else 0.0
        if len(ref) != p or gap < 1e-4:
            R.skip('lsf_reference_roots_ill_separated')
        else:
            R.check(close(lsf, ref, 1e-6 * kap, 1e-9), 'lsf', feats, pt, lsf, ref, 'poly2lsf != angles of the roots of the sum/difference polynomials')
        back, ok = _call(R, 'lsf', feats, pt, L.lsf2poly, lsf)
        if ok:
            back = np.asarray(back)
            R.check(back.shape == a.shape and close(np.real(back), a, 1e-6 * kap, 1e-9) and np.max(np.abs(np.imag(back))) < 1e-9, 'lsf',
                    dict(feats, sub='inverse'), pt, back, a, 'lsf2poly(poly2lsf(a)) != a')
    else:
        raise ValueError(kind)
