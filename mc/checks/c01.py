"""C01  Periodogram == |DFT_NFFT(x*w)|^2/N, Parseval, Wiener-Khinchin.  Engine EX."""
import itertools
import numpy as np

from .. import alphabet as A
from ..core import close, relerr
from ..ref import dft as rdft

PROP = 'C01'
RULE = ('EX engine: complete enumeration of (a) the polarisation set {e_i, e_i+e_j, e_i+i e_j} of every length N '
        'x every window name x an NFFT ladder (even, odd, prime, power of two, None, nextpow2) x real/complex x function and class form, '
        '(b) every lattice sequence over {-2..2} (float and int dtype), Gaussian integers and {1e-6,1,1e6} x every window x 4 NFFT, '
        '(c) 2-D column-wise input built from all c-tuples of basis/lattice columns, (d) Wiener-Khinchin on every lattice sequence; '
        'each point compared with an explicit-sum DFT reference; a point is distinct/non-trivial by the digest of its returned PSD '
        '(9 significant digits)')
ASSUMPTIONS = ['window samples are taken from create_window (window correctness is C20)',
               'reference DFT is an explicit exp() sum, cross-checked against numpy.fft in --selftest',
               'tolerance rtol=1e-9 relative to the largest PSD value (+1e-300 absolute)']

RTOL = 1e-9


def bounds(tier):
    if tier == 'quick':
        return {'polarisation_N': '1..8', 'lattice': 'ZR(2)^N N<=4, ZI(2)^N N<=3, ZC^N N<=2, DYN^N N<=3',
                'windows': 29, '2d': 'N 1..4 x c 1..3', 'wk': 'ZR(2)^N N<=4, ZC5^N N<=3'}
    return {'polarisation_N': '1..12', 'lattice': 'ZR(2)^N N<=5, ZI(2)^N N<=4, ZC^N N<=3, DYN^N N<=4',
            'windows': 29, '2d': 'N 1..6 x c 1..3', 'wk': 'ZR(2)^N N<=5, ZC5^N N<=4'}


def expected_clauses(tier):
    return ['psd_func', 'psd_class', 'parseval', 'psd_2d', 'wiener_khinchin', 'psd_method']


_W = {}
WINDOWS = None


def worker_init(tier):
    global WINDOWS
    from spectrum import window
    WINDOWS = sorted(window.window_names.keys())


def win(N, name):
    k = (N, name)
    w = _W.get(k)
    if w is None:
        from spectrum import create_window
        try:
            w = np.asarray(create_window(N, name), dtype=float)
        except Exception as e:   # a window that cannot be built is C20's business
            w = e
        _W[k] = w
    return w


def shards(tier):
    worker_init(tier)
    out = []
    nmax = 8 if tier == 'quick' else 12
    for N in range(1, nmax + 1):
        for cplx in (False, True):
            if N >= 9:
                for wi in range(0, len(WINDOWS), 8):
                    out.append(('pol', N, cplx, wi, wi + 8))
            else:
                out.append(('pol', N, cplx, 0, len(WINDOWS)))
    lat = {'quick': [('ZR2', 4), ('ZI2', 3), ('ZC', 2), ('DYN', 3)],
           'thorough': [('ZR2', 5), ('ZI2', 4), ('ZC', 3), ('DYN', 4)]}[tier]
    for name, nmax in lat:
        for N in range(1, nmax + 1):
            for wi in range(0, len(WINDOWS), 4):
                out.append(('lat', name, N, wi, wi + 4))
    n2 = 4 if tier == 'quick' else 6
    for N in range(1, n2 + 1):
        for c in (1, 2, 3):
            out.append(('2d', N, c))
    wk = {'quick': [('ZR2', 4), ('ZC5', 3)], 'thorough': [('ZR2', 5), ('ZC5', 4)]}[tier]
    for name, nmax in wk:
        for N in range(1, nmax + 1):
            out.append(('wk', name, N))
    for N in ([8, 9] if tier == 'quick' else [8, 9, 16, 33]):
        out.append(('pcm', N))
    return out


def _alpha(name):
    if name == 'ZR2':
        return A.ZR(2), float
    if name == 'ZI2':
        return list(range(-2, 3)), np.int64
    if name == 'ZC':
        return A.ZC, complex
    if name == 'ZC5':
        return A.ZC5, complex
    if name == 'DYN':
        return A.DYN, float
    raise KeyError(name)


def run_shard(desc, R, tier):
    kind = desc[0]
    if kind == 'pol':
        _, N, cplx, w0, w1 = desc
        vecs = A.pol(N, cplx)
        ladder = [None, 'nextpow2'] + A.nffts(N)
        for wname in WINDOWS[w0:w1]:
            for nf in ladder:
                for v in vecs:
                    for form in ('func', 'class'):
                        if form == 'func' and nf == 'nextpow2':
                            continue
                        eval_point({'kind': '1d', 'form': form, 'x': v, 'window': wname, 'NFFT': nf}, R)
    elif kind == 'lat':
        _, aname, N, w0, w1 = desc
        alpha, dt = _alpha(aname)
        nffts = [N, N + 1, 2 * N, 2 * N + 1]
        for wname in WINDOWS[w0:w1]:
            for nf in nffts:
                for s in itertools.product(alpha, repeat=N):
                    x = np.array(s, dtype=dt)
                    eval_point({'kind': '1d', 'form': 'func', 'x': x, 'window': wname, 'NFFT': nf}, R)
                    if nf == N + 1:
                        eval_point({'kind': '1d', 'form': 'class', 'x': x, 'window': wname, 'NFFT': nf}, R)
    elif kind == '2d':
        _, N, c = desc
        cols = [v for v in A.pol(N, False)[:N]] + [np.arange(1, N + 1, dtype=float)]
        ccols = cols + [np.arange(1, N + 1) * 1j + 1.0]
        for wname in WINDOWS:
            for nf in (None, N + 1, 2 * N):
                for cplx, cc in ((False, cols), (True, ccols)):
                    for tup in itertools.product(range(len(cc)), repeat=c):
                        if cplx and not any(np.iscomplexobj(cc[i]) for i in tup):
                            continue
                        X = np.stack([cc[i] for i in tup], axis=1)
                        eval_point({'kind': '2d', 'X': X, 'window': wname, 'NFFT': nf}, R)
    elif kind == 'pcm':
        N = desc[1]
        for nm, x in A.pcm(N):
            for wname in WINDOWS:
                for nf in (None, N + 1, 2 * N):
                    for form in ('func', 'class'):
                        eval_point({'kind': '1d', 'form': form, 'x': x, 'window': wname, 'NFFT': nf, 'name': nm}, R)
            for nf in (2 * N - 1, 2 * N):
                for meth in ('xcorr', 'CORRELATION'):
                    eval_point({'kind': 'wk', 'x': x, 'NFFT': nf, 'method': meth, 'name': nm}, R)
    elif kind == 'wk':
        _, aname, N = desc
        alpha, dt = _alpha(aname)
        for nf in (2 * N - 1, 2 * N, 2 * N + 1, 4 * N):
            for meth in ('xcorr', 'CORRELATION'):
                for s in itertools.product(alpha, repeat=N):
                    x = np.array(s, dtype=dt)
                    eval_point({'kind': 'wk', 'x': x, 'NFFT': nf, 'method': meth}, R)
    else:
        raise ValueError(desc)


def _resolve_nfft(nf, N):
    if nf is None:
        return N
    if nf == 'nextpow2':
        return A.nextpow2(N)
    return int(nf)


def _feats(form, cplx, NFFT, N, x):
    return {'form': form, 'dtype': 'complex' if cplx else ('int' if np.asarray(x).dtype.kind in 'iu' else 'real'),
            'nfft': 'odd' if NFFT % 2 else 'even', 'N': '1' if N == 1 else ('2' if N == 2 else '>2')}


def ref_psd(x, w, NFFT, cplx):
    N = len(x)
    X = rdft.dft(np.asarray(x).astype(complex) * w, NFFT)
    P = (X.real ** 2 + X.imag ** 2) / N
    if not cplx:
        P = P[:rdft.n_onesided(NFFT)]
    return P


def eval_point(pt, R):
    import spectrum
    kind = pt['kind']
    if kind == '1d':
        x = np.asarray(pt['x'])
        N = len(x)
        wname = pt['window']
        w = win(N, wname)
        if isinstance(w, Exception) or not np.all(np.isfinite(w)) or len(w) != N:
            R.point(pt, indomain=False)
            R.skip('window_not_finite_or_unbuildable')
            return
        cplx = np.iscomplexobj(x)
        NFFT = _resolve_nfft(pt['NFFT'], N)
        ref = ref_psd(x, w, NFFT, cplx)
        form = pt['form']
        feats = _feats(form, cplx, NFFT, N, x)
        R.point(pt)
        R.calls()
        try:
            if form == 'func':
                obs = spectrum.speriodogram(x, NFFT=pt['NFFT'], detrend=False, sampling=1., scale_by_freq=False,
                                            window=wname)
            else:
                p = spectrum.Periodogram(x, sampling=1., window=wname, NFFT=pt['NFFT'], scale_by_freq=False,
                                         detrend=None)
                obs = p.psd
            obs = np.asarray(obs)
        except Exception as e:
            R.viol('psd_' + form, dict(feats, exc=type(e).__name__), pt, repr(e), ref, 'exception inside the domain')
            return
        atol = 1e-300
        e = relerr(obs, ref)
        R.check(close(obs, ref, RTOL, atol) and not np.iscomplexobj(obs), 'psd_' + form, feats, pt, obs, ref,
                'PSD != |DFT(x*w)|^2/N', outs=(obs,), err=e)
        if cplx and obs.shape == ref.shape:
            lhs = float(np.mean(obs))
            rhs = float(np.sum(np.abs(A.prom(x) * w) ** 2) / N)
            R.check(abs(lhs - rhs) <= 1e-9 * max(abs(lhs), abs(rhs)) + atol, 'parseval', feats, pt, lhs, rhs,
                    'mean of the returned values != sum|x w|^2/N')
        if form == 'class':
            # the method form: <Fourier spectrum object>.periodogram() must take window, NFFT, detrend, scaling from the object's attributes
            for tag, mk in (('FourierSpectrum', lambda: spectrum.FourierSpectrum(x, sampling=1., window=wname, NFFT=pt['NFFT'], scale_by_freq=False, detrend=None)),
                            ('Periodogram', lambda: spectrum.Periodogram(x, sampling=1., window=wname, NFFT=pt['NFFT'], scale_by_freq=False, detrend=None))):
                R.calls()
                try:
                    o = mk()
                    o.periodogram()
                    obs2 = np.asarray(o.psd)
                    R.check(close(obs2, ref, RTOL, atol) and not np.iscomplexobj(obs2), 'psd_method', dict(feats, obj=tag), pt, obs2, ref,
                            '<object>.periodogram(): PSD != |DFT(x*w)|^2/N', err=relerr(obs2, ref))
                except Exception as e:
                    R.viol('psd_method', dict(feats, obj=tag, exc=type(e).__name__), pt, repr(e), ref, 'exception inside the domain')
    elif kind == '2d':
        X = np.asarray(pt['X'])
        N, c = X.shape
        wname = pt['window']
        w = win(N, wname)
        if isinstance(w, Exception) or not np.all(np.isfinite(w)) or len(w) != N:
            R.point(pt, indomain=False)
            R.skip('window_not_finite_or_unbuildable')
            return
        cplx = np.iscomplexobj(X)
        NFFT = _resolve_nfft(pt['NFFT'], N)
        ref = np.stack([ref_psd(X[:, j], w, NFFT, cplx) for j in range(c)], axis=1)
        feats = _feats('2d', cplx, NFFT, N, X)
        feats['cols'] = '1' if c == 1 else '>1'
        R.point(pt)
        R.calls()
        try:
            obs = np.asarray(spectrum.speriodogram(X, NFFT=pt['NFFT'], detrend=False, sampling=1.,
                                                   scale_by_freq=False, window=wname))
        except Exception as e:
            R.viol('psd_2d', dict(feats, exc=type(e).__name__), pt, repr(e), ref, 'exception inside the domain')
            return
        R.check(close(obs, ref, RTOL, 1e-300), 'psd_2d', feats, pt, obs, ref,
                'column j of the 2-D result != 1-D periodogram of column j', outs=(obs,), err=relerr(obs, ref))
    elif kind == 'wk':
        x = np.asarray(pt['x'])
        N = len(x)
        NFFT = int(pt['NFFT'])
        cplx = np.iscomplexobj(x)
        ref = ref_psd(x, np.ones(N), NFFT, True)
        feats = {'method': pt['method'], 'dtype': 'complex' if cplx else 'real', 'nfft': 'odd' if NFFT % 2 else 'even',
                 'N': '1' if N == 1 else '>1'}
        if N < 2:
            R.point(pt, indomain=False)
            R.skip('wk_lag0')
            return
        R.point(pt)
        R.calls()
        try:
            obs = np.asarray(spectrum.CORRELOGRAMPSD(x, lag=N - 1, window='rectangular', norm='biased', NFFT=NFFT,
                                                     correlation_method=pt['method']))
        except Exception as e:
            R.viol('wiener_khinchin', dict(feats, exc=type(e).__name__), pt, repr(e), ref, 'exception inside the domain')
            return
        scale = max(float(np.max(np.abs(ref))), 1e-300)
        R.check(close(obs, ref, RTOL, 1e-12 * max(scale, float(np.sum(np.abs(A.prom(x)) ** 2)))), 'wiener_khinchin', feats, pt, obs, ref,
                'correlogram(rect, lag N-1, biased) != periodogram', outs=(obs,), err=relerr(obs, ref, 1e-12))
    else:
        raise ValueError(kind)


def repro(pt):
    if pt['kind'] == '1d':
        return ("import numpy as np, spectrum\nx=np.array(%r)\n"
                "P=spectrum.speriodogram(x,NFFT=%r,detrend=False,scale_by_freq=False,window=%r)  # or Periodogram(...).psd\n"
                "w=spectrum.create_window(len(x),%r); NFFT=%r or len(x)\n"
                "ref=abs(np.fft.fft(x*w,NFFT))**2/len(x)\nprint(P, ref)" % (np.asarray(pt['x']).tolist(), pt['NFFT'], pt['window'], pt['window'], pt['NFFT']))
    return None
