"""C20  Every named window is a well-formed taper of the requested length.  Engine EX."""
import numpy as np

from ..core import close, relerr
from ..ref import windows as rw

PROP = 'C20'
RULE = ('EX engine: all 29 window names x EVERY length N in the bound (plus a fixed ladder of large N in thorough) with default parameters; complete parameter grids '
        '(Kaiser beta, Gaussian / Blackman / Poisson / Poisson-Hanning / Cauchy alpha, Tukey r, Chebyshev attenuation, flat-top mode, Taylor nbar x sll) x every N in '
        '1..64; factory forwarding create_window(N, name, **p) == window_<name>(N, **p); every undocumented keyword and every keyword on a parameter-less window must '
        'raise; aliases; Window object; the second Kaiser implementation (method != numpy) x every N x beta grid.  Checks: N finite real samples, symmetry, max <= 1 (== 1 at the centre for odd N >= 3), ENBW >= 1 and == N sum w^2/(sum w)^2, '
        'closed-form definitions evaluated in scalar Python math. Distinct = digests of the window arrays')
ASSUMPTIONS = ['closed forms are those documented in the window docstrings / Harris (1978); they are evaluated with scalar math (power-series I0, explicit DFT sums for Dolph-Chebyshev)',
               'symmetry tolerance 1e-12, closed forms 1e-9, Chebyshev 1e-7; flat-top periodic mode is exempt from symmetry and centre clauses',
               'ENBW is asserted for N >= 3 and windows with a non-zero sum']

PARAM_GRIDS = {
    'kaiser': [dict(beta=b) for b in (0, 0.5, 2, 8.6, 14)],
    'gaussian': [dict(alpha=a) for a in (0.5, 2.5, 4)],
    'blackman': [dict(alpha=a) for a in (0, 0.16, 0.26, 0.3)],
    'poisson': [dict(alpha=a) for a in (0, 0.5, 2, 4)],
    'poisson_hanning': [dict(alpha=a) for a in (0, 0.5, 2, 4)],
    'cauchy': [dict(alpha=a) for a in (0, 3, 5)],
    'tukey': [dict(r=r) for r in (0, 1e-6, 0.1, 0.25, 0.5, 0.9, 0.99999, 1 - 1e-7, 1)],     # including values next to the r = 0 / r = 1 special cases
    'chebwin': [dict(attenuation=a) for a in (30, 50, 100)],
    'flattop': [dict(mode=m) for m in ('symmetric', 'periodic')],
    'taylor': [dict(nbar=nb, sll=s) for nb in (2, 4, 6) for s in (-20, -30, -40)] + [dict(nbar=6), dict(sll=-40)],      # also each parameter alone
}
ALL_KEYWORDS = ['beta', 'alpha', 'attenuation', 'mode', 'r', 'nbar', 'sll', 'foo', 'N', 'method', 'precision']
DOCUMENTED = {'kaiser': ['beta'], 'blackman': ['alpha'], 'cauchy': ['alpha'], 'flattop': ['mode'], 'gaussian': ['alpha'], 'chebwin': ['attenuation'],
              'tukey': ['r'], 'poisson': ['alpha'], 'poisson_hanning': ['alpha'], 'taylor': ['nbar', 'sll']}
ALIASES = [('hann', 'hanning'), ('rectangular', 'rectangle'), ('bartlett', 'triangular'), ('cosine', 'sine'), ('lanczos', 'sinc')]
LADDER = [1000, 1023, 1024, 4096, 16383, 16384]
NAMES = None


def worker_init(tier):
    global NAMES
    from spectrum import window
    NAMES = sorted(window.window_names.keys())


def bounds(tier):
    if tier == 'quick':
        return {'names': 29, 'N_default_params': 'every N in 1..128', 'N_param_grids': 'every N in 1..32', 'keywords_tried': ALL_KEYWORDS, 'N_as_numpy_integer': 'int16/int32/int64 at N in {9, 40}, int16 at 200, int32 at 1300, int64 at 2000', 'sequences': 'request, overwrite the result, request again'}
    return {'names': 29, 'N_default_params': 'every N in 1..512 + %s' % LADDER, 'N_param_grids': 'every N in 1..64', 'keywords_tried': ALL_KEYWORDS, 'N_as_numpy_integer': 'int16/int32/int64 at N in {9, 40}, int16 at 200, int32 at 1300, int64 at 2000', 'sequences': 'request, overwrite the result, request again'}


def expected_clauses(tier):
    return ['samples', 'symmetric', 'max', 'centre', 'enbw', 'closed_form', 'forward', 'reject', 'alias', 'window_object', 'kaiser_alt']


def shards(tier):
    worker_init(tier)
    hi = 128 if tier == 'quick' else 512
    out = []
    for name in NAMES:
        out.append(('default', name, 1, hi))
        out.append(('params', name))
    if tier == 'thorough':
        for N in LADDER:
            out.append(('ladder', N))
    out.append(('alias',))
    return out


def run_shard(desc, R, tier):
    kind = desc[0]
    if kind == 'default':
        _, name, lo, hi = desc
        for N in range(lo, hi + 1):
            eval_point({'kind': 'w', 'name': name, 'N': N, 'params': {}}, R)
            if N in (1, 2, 3, 8, 9, 64) or N == hi:
                eval_point({'kind': 'obj', 'name': name, 'N': N}, R)
            if N in (9, 40):
                # the caller owns the returned array: overwriting it must not change what a later request returns
                eval_point({'kind': 'w', 'name': name, 'N': N, 'params': {}, 'clobber_first': True}, R)
                # the length given as a numpy integer of any width
                for ntype in ('int16', 'int32', 'int64'):
                    eval_point({'kind': 'w', 'name': name, 'N': N, 'params': {}, 'ntype': ntype}, R)
        for N, ntype in ((1300, 'int32'), (200, 'int16'), (2000, 'int64')):
            if name == 'chebwin' and N > 512 and tier == 'quick':
                continue
            eval_point({'kind': 'w', 'name': name, 'N': N, 'params': {}, 'ntype': ntype}, R)
    elif kind == 'params':
        name = desc[1]
        hi = 32 if tier == 'quick' else 64
        for N in range(1, hi + 1):
            for p in PARAM_GRIDS.get(name, []):
                eval_point({'kind': 'w', 'name': name, 'N': N, 'params': p}, R)
                if N in (8, 9, 32):
                    # Window objects: a default-parameter object first, then the parametrised one (and the reverse order)
                    eval_point({'kind': 'obj', 'name': name, 'N': N, 'params': p, 'first': 'default'}, R)
                    eval_point({'kind': 'obj', 'name': name, 'N': N, 'params': {}, 'first': p}, R)
                if N in (8, 9):
                    # a parametrised request must not leak into a later default request (sequence of two calls)
                    eval_point({'kind': 'w', 'name': name, 'N': N, 'params': {}, 'after': p}, R)
            if name == 'kaiser':
                # the library's own ("independent") Kaiser implementation, selected by window_kaiser(N, beta, method=<anything but 'numpy'>)
                for b in (0, 0.5, 2, 8.6, 14):
                    eval_point({'kind': 'kaiser_alt', 'N': N, 'beta': b}, R)
        for kw in ALL_KEYWORDS:
            if kw not in DOCUMENTED.get(name, []):
                eval_point({'kind': 'reject', 'name': name, 'N': 16, 'kw': kw}, R)
    elif kind == 'ladder':
        N = desc[1]
        for name in NAMES:
            if name == 'chebwin' and N > 4096:
                continue            # the scalar explicit-DFT reference is O(N^2)
            eval_point({'kind': 'w', 'name': name, 'N': N, 'params': {}}, R)
    else:
        hi = 128 if tier == 'quick' else 512
        for a, b in ALIASES:
            for N in range(1, hi + 1):
                eval_point({'kind': 'alias', 'a': a, 'b': b, 'N': N}, R)


def eval_point(pt, R):
    import spectrum
    from spectrum import window as W
    kind = pt['kind']
    if kind == 'reject':
        name, N, kw = pt['name'], int(pt['N']), pt['kw']
        R.point(pt)
        R.calls()
        raised = False
        try:
            spectrum.create_window(N, name, **{kw: 1})
        except Exception:
            raised = True
        R.check(raised, 'reject', {'name': name if name in DOCUMENTED else 'parameterless', 'kw': kw}, pt, 'accepted', 'raises',
                'factory accepted a keyword that is not a documented shape parameter of this window', outs=(name, kw))
        return
    if kind == 'kaiser_alt':
        N, b = int(pt['N']), pt['beta']
        feats = {'N': '1' if N == 1 else ('2' if N == 2 else ('odd' if N % 2 else 'even')), 'beta0': b == 0}
        R.point(pt)
        R.calls()
        try:
            w = np.asarray(W.window_kaiser(N, b, method='other'))
        except Exception as e:
            R.viol('kaiser_alt', dict(feats, exc=type(e).__name__), pt, repr(e), None, "window_kaiser(N, beta, method='other') raised")
            return
        ref = np.array(rw.CLOSED['kaiser'](N, beta=b), dtype=float)
        R.check(w.shape == (N,) and np.all(np.isfinite(w)) and close(w, ref, 0.0, 1e-9), 'kaiser_alt', feats, pt, w, ref,
                "the library's independent Kaiser implementation does not give the N samples of the Kaiser definition", outs=(w, 'alt'))
        return
    if kind == 'alias':
        a, b, N = pt['a'], pt['b'], int(pt['N'])
        R.point(pt)
        R.calls(2)
        try:
            wa = np.asarray(spectrum.create_window(N, a))
            wb = np.asarray(spectrum.create_window(N, b))
            R.check(wa.shape == wb.shape and np.array_equal(wa, wb, equal_nan=True), 'alias', {'pair': a + '/' + b}, pt, wa, wb, 'alias names give different arrays', outs=(wa,))
        except Exception as e:
            R.viol('alias', {'pair': a + '/' + b, 'exc': type(e).__name__}, pt, repr(e), None, 'alias raised')
        return
    if kind == 'obj':
        name, N = pt['name'], int(pt['N'])
        R.point(pt)
        R.calls(2)
        prm = dict(pt.get('params') or {})
        try:
            if pt.get('first') is not None:
                f = {} if pt['first'] == 'default' else dict(pt['first'])
                o1 = spectrum.Window(N, name, **f)
                _ = o1.enbw
                d1 = np.asarray(o1.data)
                if d1.flags.writeable:
                    d1 /= max(float(np.sum(d1)), 1e-300)         # the caller normalises the samples of the first object in place
            o = spectrum.Window(N, name, **prm)
            w = np.asarray(getattr(W, W.window_names[name])(N, **prm))
            same = np.array_equal(np.asarray(o.data), w, equal_nan=True) and o.N == N
            s = float(np.sum(w))
            if N >= 3 and s != 0 and np.all(np.isfinite(w)):
                same = same and abs(o.enbw - N * float(np.sum(w ** 2)) / s ** 2) <= 1e-12 * abs(o.enbw)
            R.check(same, 'window_object', {'name': name, 'sequence': 'single' if pt.get('first') is None else 'second object'}, pt, [o.N, o.enbw], [N, None],
                    'Window object disagrees with the generator (samples, length or ENBW)', outs=(w, 'obj'))
            if N >= 2 and np.all(np.isfinite(w)) and abs(s) > 1e-12:
                # using the frequency-response getters must not change what the object reports
                _ = o.response
                _ = o.frequencies
                str(o)
                R.check(np.array_equal(np.asarray(o.data), w) and o.N == N and abs(o.mean_square - float(np.sum(w ** 2)) / N) <= 1e-12 * max(1e-300, float(np.sum(w ** 2)) / N),
                        'window_object', {'name': name, 'after': 'response'}, pt, np.asarray(o.data), w, 'Window.data / mean_square changed after the frequency response was computed')
        except Exception as e:
            R.viol('window_object', {'name': name, 'exc': type(e).__name__}, pt, repr(e), None, 'Window raised')
        return
    name, N, params = pt['name'], int(pt['N']), dict(pt['params'])
    Narg = getattr(np, pt['ntype'])(N) if pt.get('ntype') else N
    if pt.get('clobber_first'):
        try:
            w0 = spectrum.create_window(N, name, **params)
            if isinstance(w0, np.ndarray) and w0.flags.writeable:
                w0[:] = -7.0
            o0 = spectrum.Window(N, name)
            d0 = np.asarray(o0.data)
            if d0.flags.writeable:
                d0[:] = -7.0
        except Exception:
            pass
    if pt.get('after'):
        try:
            spectrum.create_window(N, name, **dict(pt['after']))
        except Exception:
            pass
    feats = {'name': name, 'N': '1' if N == 1 else ('2' if N == 2 else ('odd' if N % 2 else 'even')), 'params': 'default' if not params else 'custom'}
    if pt.get('ntype'):
        feats['N_type'] = 'numpy integer'
    if pt.get('clobber_first'):
        feats['after'] = 'caller overwrote an earlier result'
    R.point(pt)
    R.calls()
    try:
        w = np.asarray(spectrum.create_window(Narg, name, **params))
    except Exception as e:
        R.viol('samples', dict(feats, exc=type(e).__name__), pt, repr(e), None, 'create_window raised for a documented configuration')
        return
    ok = w.shape == (N,) and not np.iscomplexobj(w) and np.all(np.isfinite(w))
    R.check(ok, 'samples', feats, pt, w, 'N finite real samples', 'window does not have exactly N finite real samples', outs=(w,))
    if not ok:
        return
    periodic = params.get('mode') == 'periodic'
    if not periodic:
        d = float(np.max(np.abs(w - w[::-1])))
        R.check(d <= 1e-12, 'symmetric', feats, pt, d, 0, 'w[n] != w[N-1-n]', err=d)
    mx = float(np.max(w))
    R.check(mx <= 1.0 + 1e-8, 'max', feats, pt, mx, '<=1', 'maximum exceeds 1')
    if N % 2 == 1 and N >= 3 and not periodic:
        c = float(w[(N - 1) // 2])
        R.check(abs(c - 1.0) <= 1e-8, 'centre', feats, pt, c, 1.0, 'centre sample of an odd-length window is not 1')
    s = float(np.sum(w))
    if N >= 3 and abs(s) > 1e-12:
        R.calls()
        en = float(W.enbw(w))
        ref = N * float(np.sum(w ** 2)) / s ** 2
        R.check(en >= 1.0 - 1e-12 and abs(en - ref) <= 1e-12 * ref, 'enbw', feats, pt, en, ref, 'ENBW < 1 or != N sum w^2 / (sum w)^2')
    # closed form
    ref = np.array(rw.CLOSED[name](N, **params), dtype=float)
    tol = 1e-7 if name == 'chebwin' else 1e-9
    R.check(w.shape == ref.shape and close(w, ref, 0.0, tol), 'closed_form', feats, pt, w, ref, 'window != its closed-form definition',
            err=float(np.max(np.abs(w - ref))) if w.shape == ref.shape else None)
    # factory forwarding
    if params:
        R.calls()
        try:
            direct = np.asarray(getattr(W, W.window_names[name])(N, **params))
            R.check(np.array_equal(direct, w), 'forward', feats, pt, w, direct, 'create_window(N, name, **p) != window_<name>(N, **p)')
        except Exception as e:
            R.viol('forward', dict(feats, exc=type(e).__name__), pt, repr(e), None, 'direct window function raised')
