"""C18  Slepian tapers are orthonormal, ordered and maximally concentrated.  Engine EX."""
import math
import numpy as np

from ..core import close, relerr
from ..ref import dpss as rd

PROP = 'C18'
USES_MTM = True
RULE = ('EX engine: dpss(N, NW, k) for EVERY N in the bound (plus a fixed ladder of large N in thorough) x NW in {1, 1.5, .., 8} and {1.2, 2.3, 3.3, 5.7} with '
        'NW < N/2 x k in {default} and EVERY k in 1..floor(2NW); the C routine is recompiled from src/cpp/mydpss.c for the run.  Checks: shape, V^T V = I, '
        'eigenvalues in (0,1] non-increasing and equal to v^T A v with A the sinc concentration kernel, ||A v - lambda v|| small, columns equal the eigenvectors '
        'of the commuting tridiagonal matrix (independent LAPACK solver) after the sign convention, parity and sign rules. Distinct = digests of the taper matrices')
ASSUMPTIONS = ['eigenvector / residual tolerances follow the measured accuracy of the pinned routine with a margin of 40-100: 1e-9 (N <= 64), 1e-7 / 5e-8 (N <= 512), 1e-6 / 5e-7 (N <= 1024), 1e-5 beyond, for half-integer NW; 1e-6 for other NW (the routine receives NW as a C float); concentration ratios 1e-10',
               'the two highest-order tapers of k = floor(2NW) have concentration well below 1 but remain leading eigenvectors; non-degenerate eigenvalue gaps > 1e-7 are required for the eigenvector comparison']
NWS = [1.0, 1.5, 2.0, 2.5, 3.0, 3.5, 4.0, 4.5, 5.0, 5.5, 6.0, 6.5, 7.0, 7.5, 8.0, 1.2, 2.3, 3.3, 5.7]
LADDER = [600, 768, 1000, 1024, 2047, 2048, 4095, 4096]


def bounds(tier):
    if tier == 'quick':
        return {'N': 'every N in 8..64', 'NW': NWS, 'k': 'default and every 1..floor(2NW)'}
    return {'N': 'every N in 8..512 + ladder %s (ladder: NW in {2.5, 4, 8}, k in {default, floor(2NW)})' % LADDER, 'NW': NWS, 'k': 'default and every 1..floor(2NW)'}


def expected_clauses(tier):
    return ['shape', 'orthonormal', 'eigenvalues', 'concentration', 'eigvec_residual', 'tridiagonal', 'parity', 'sign']


def shards(tier):
    out = []
    hi = 64 if tier == 'quick' else 512
    for N in range(8, hi + 1):
        if N > 256:
            out.append(('n', N, 0))
            out.append(('n', N, 1))
        else:
            out.append(('n', N, None))
    if tier == 'thorough':
        for N in LADDER:
            for NW in (2.5, 4.0, 8.0):
                out.append(('big', N, NW))
    return out


def run_shard(desc, R, tier):
    if desc[0] == 'n':
        _, N, half = desc
        for i, NW in enumerate(NWS):
            if half is not None and i % 2 != half:
                continue
            if not (NW < N / 2.0):
                continue
            for k in [None] + list(range(1, int(math.floor(2 * NW)) + 1)):
                if k is not None and k > N:
                    continue
                eval_point({'N': N, 'NW': NW, 'k': k}, R)
    else:
        _, N, NW = desc
        for k in (None, int(math.floor(2 * NW))):
            eval_point({'N': N, 'NW': NW, 'k': k}, R)


_REF = {}


def reference(N, NW, kmax):
    key = (N, NW)
    got = _REF.get(key)
    if got is None or got[2] < kmax:
        W = NW / float(N)
        r = rd.kernel_row(N, W)
        v = rd.sign_convention(rd.tridiag_eigvecs(N, W, kmax))
        if len(_REF) > 8:
            _REF.clear()
        _REF[key] = got = (r, v, kmax)
    return got[0], got[1][:, :kmax]


def eval_point(pt, R):
    import spectrum
    N, NW, k = int(pt['N']), float(pt['NW']), pt['k']
    kk = int(k) if k is not None else int(max(min(round(2 * NW), N), 1))
    feats = {'k': 'default' if k is None else ('max' if kk == int(math.floor(2 * NW)) else 'k<max'), 'parity': 'odd' if N % 2 else 'even',
             'NW': 'half-integer' if (2 * NW) == int(2 * NW) else 'other'}
    R.point(pt)
    R.calls()
    try:
        tapers, ev = spectrum.dpss(N, NW, k)
        tapers, ev = np.asarray(tapers), np.asarray(ev)
    except Exception as e:
        R.viol('shape', dict(feats, exc=type(e).__name__), pt, repr(e), None, 'dpss raised inside its domain')
        return
    ok = tapers.shape == (N, kk) and ev.shape == (kk,) and np.all(np.isfinite(tapers)) and np.all(np.isfinite(ev))
    R.check(ok, 'shape', feats, pt, [tapers.shape, ev.shape], [(N, kk), (kk,)], 'wrong shape or non-finite values', outs=(tapers,))
    if not ok:
        return
    if N <= 64 or N % 97 == 0:
        # a result the caller keeps must survive later calls (same N and k, another NW; same N, another NW and k)
        keep_t, keep_e = tapers.copy(), ev.copy()
        R.calls(2)
        try:
            other = NW + 0.5 if NW + 0.5 < N / 2.0 else max(NW - 0.5, 0.5)
            spectrum.dpss(N, other, kk)
            spectrum.dpss(N, other, None)
            R.check(np.array_equal(keep_t, np.asarray(tapers)) and np.array_equal(keep_e, np.asarray(ev)), 'kept_result', feats, pt, None, None,
                    'tapers / concentration ratios returned earlier changed when dpss was called again with another NW')
        except Exception as e:
            R.viol('kept_result', dict(feats, exc=type(e).__name__), pt, repr(e), None, 'second dpss call raised')
    G = tapers.T @ tapers
    R.check(close(G, np.eye(kk), 0.0, 1e-8), 'orthonormal', feats, pt, G, np.eye(kk), 'columns are not orthonormal', err=float(np.max(np.abs(G - np.eye(kk)))))
    kmax = max(kk, int(math.floor(2 * NW)))
    r, vref = reference(N, NW, kmax)
    AV = rd.kernel_apply(r, tapers)
    conc = np.sum(tapers * AV, axis=0)
    R.check(np.all(ev > 0) and np.all(ev <= 1 + 1e-9) and np.all(np.diff(ev) <= 1e-9), 'eigenvalues', feats, pt, ev, 'in (0,1], non-increasing',
            'concentration ratios outside (0,1] or not ordered')
    half = (2 * NW) == int(2 * NW)
    # accuracy of the pinned routine (measured over the whole bound, then x 40..100): half-integer NW is exact as a C float and the routine is
    # accurate to 1e-11 (N <= 64) .. 2e-9 (N <= 512) .. 2e-8 (N <= 1024) .. 2e-6 (beyond); other NW values carry the float rounding of NW (2e-8)
    if half:
        tol_res, tol_vec = (1e-9, 1e-9) if N <= 64 else ((1e-7, 5e-8) if N <= 512 else ((1e-6, 5e-7) if N <= 1024 else (1e-5, 1e-5)))
    else:
        tol_res, tol_vec = (1e-6, 1e-6) if N <= 1024 else (1e-5, 1e-5)
    R.check(close(ev, conc, 0.0, 1e-10), 'concentration', feats, pt, ev, conc, 'returned eigenvalue != fraction of the taper energy inside |f| <= NW/N',
            err=float(np.max(np.abs(ev - conc))))
    res = np.max(np.sqrt(np.sum((AV - tapers * conc) ** 2, axis=0)))
    R.check(res <= tol_res, 'eigvec_residual', feats, pt, float(res), '<=%g' % tol_res, 'columns are not eigenvectors of the sinc concentration kernel (||Av - lambda v||)', err=float(res))
    vr = vref[:, :kk]
    d = float(np.max(np.abs(tapers - vr)))
    R.check(d <= tol_vec, 'tridiagonal', feats, pt, d, '<=%g' % tol_vec, 'columns differ from the leading eigenvectors of the commuting tridiagonal matrix (independent solver, sign convention applied)',
            err=d)
    par = 0.0
    okp = True
    oks = True
    for j in range(kk):
        v = tapers[:, j]
        par = max(par, float(np.max(np.abs(v - ((-1) ** j) * v[::-1]))))
        if j % 2 == 0:
            oks = oks and np.sum(v) > 0
        else:
            big = np.nonzero(np.abs(v) > 1e-3 * np.max(np.abs(v)))[0][0]
            oks = oks and v[big] > 0 and v[0] >= 0
    R.check(par <= 1e-6, 'parity', feats, pt, par, '<=1e-6', 'taper j is not (anti)symmetric: v_j[n] != (-1)^j v_j[N-1-n]', err=par)
    R.check(bool(oks), 'sign', feats, pt, None, None, 'sign rule broken: even tapers must have a positive sum, odd tapers must start with a positive lobe')
