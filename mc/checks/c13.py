"""C13  Burg models are stable, nested and minimise forward+backward error.  Engine EX (trie over data)."""
import itertools
import numpy as np

from .. import alphabet as A
from ..core import close, relerr
from ..ref import lp, ar as rar

PROP = 'C13'
RULE = ('EX engine: every sequence over {-1,0,1} / {-2..2} (float and int) and {0,1,-1,i,1+i} of every length in the bound, plus the fixed noise-like / '
        'tone families at lengths up to 200, x EVERY order p in 1..min(N-2,30) x criteria in {None + 6 names}; arburg and pburg are executed; the returned '
        'reflection coefficients are fed to a reference lattice filter that recomputes the stage errors and the stage-wise minimiser; step-up, variance '
        'product, monotonicity, nesting (exact) and criterion = plain order-q model (exact) are checked. Distinct = digests of (a, rho, k)')
ASSUMPTIONS = ['AICc / AKICc divide by N-p-2 and are exercised for p <= N-3 only',
               'non-degenerate: every reference stage energy den_i > 1e-6 * N * mean|x|^2 and every reference stage variance > 1e-9 * mean|x|^2',
               'tolerance on stage minimisers 1e-9 + 1e-11 * N*mean|x|^2/den_i (the recursive energy update of Burg cancels), 1e-8*kappa on step-up with kappa = prod 1/(1-|k_i|^2) capped at 1e8']
CRITERIA = ['AIC', 'AICc', 'KIC', 'FPE', 'AKICc', 'MDL']


def bounds(tier):
    q = tier == 'quick'
    return {'lattice': 'ZR(1)^N 4<=N<=%d, ZR(2)^N 4<=N<=%d, ZI(1)^N N<=%d, ZC5^N 4<=N<=%d' % ((6, 4, 5, 4) if q else (8, 6, 7, 6)),
            'families_N': [8, 9, 16] if q else [8, 9, 16, 33, 64, 200], 'orders': 'all 1..min(N-2,30)', 'criteria': [None] + CRITERIA}


def expected_clauses(tier):
    out = ['modulus', 'stepup', 'rho', 'rho_monotone', 'nest', 'stage_min', 'criteria', 'pburg', 'input_unchanged', 'pburg_history']
    try:
        from spectrum.burg import _arburg2      # private second formulation: only expected while the tree still has it
        out.append('arburg2')
    except ImportError:
        pass
    return out


def _alpha(name):
    return {'ZR1': (A.ZR(1), float), 'ZR2': (A.ZR(2), float), 'ZI1': ([-1, 0, 1], np.int64), 'ZC5': (A.ZC5, complex)}[name]


def shards(tier):
    q = tier == 'quick'
    out = []
    for name, lo, hi in (('ZR1', 4, 6 if q else 8), ('ZR2', 4, 4 if q else 6), ('ZI1', 4, 5 if q else 7), ('ZC5', 4, 4 if q else 6)):
        for n in range(lo, hi + 1):
            alpha, _ = _alpha(name)
            if len(alpha) ** n > 5000:
                for first in range(len(alpha)):
                    for second in range(len(alpha)):
                        out.append(('lat', name, n, [first, second]))
            elif len(alpha) ** n > 700:
                for first in range(len(alpha)):
                    out.append(('lat', name, n, [first]))
            else:
                out.append(('lat', name, n, []))
    for N in ([8, 9, 16] if q else [8, 9, 16, 33, 64, 200]):
        for cplx in (False, True):
            out.append(('gen', N, cplx, 0))
            out.append(('gen', N, cplx, 1))
    return out


def run_shard(desc, R, tier):
    if desc[0] == 'lat':
        _, name, n, first = desc
        alpha, dt = _alpha(name)
        pre = tuple(alpha[i] for i in first)
        it = (pre + t for t in itertools.product(alpha, repeat=n - len(pre)))
        for s in it:
            x = np.array(s, dtype=dt)
            if not np.any(x):
                continue
            eval_point({'x': x}, R)
    else:
        _, N, cplx, half = desc
        fam = (A.gen_cplx(N) + A.tones_cplx(N)) if cplx else (A.gen_real(N) + A.tones_real(N) + A.pcm(N) + A.pcm64(N))
        fam = fam + A.scaled(fam) + A.strided(fam) + A.extreme(fam) + A.shaped(N, cplx) + A.near_noiseless(N, cplx)
        for i, (name, x) in enumerate(fam):
            if i % 2 == half:
                eval_point({'x': x, 'name': name}, R)


def eval_point(pt, R):
    """One data vector: all orders 1..pmax and all criteria."""
    import spectrum
    x = A.layout(pt, pt['x'])
    N = len(x)
    cplx = np.iscomplexobj(x)
    pmax = min(N - 2, 30)
    if 'p' in pt:
        orders = [int(pt['p'])]
        pmax = orders[0]
    else:
        orders = list(range(pmax, 0, -1))
    dt = 'complex' if cplx else (('int' if x.dtype.itemsize >= 8 else 'narrow-int') if x.dtype.kind in 'iu' else 'real')
    power = float(np.mean(np.abs(A.prom(x)) ** 2))
    kref, rhoref, dens = rar.burg(x, pmax)
    # largest order for which the reference recursion is non-degenerate
    pgood = 0
    for m in range(1, len(kref) + 1):
        if dens[m - 1] > 3e-9 * N * power and rhoref[m] > 1e-9 * power:      # the stage-minimiser tolerance below grows as 1e-11 N power / den (<= 3e-3 at this bound)
            pgood = m
        else:
            break
    full = None
    for p in orders:
        ptp = dict(pt, p=p)
        feats = {'dtype': dt, 'parity': 'odd' if p % 2 else 'even'}
        if p > pgood:
            R.point(ptp, indomain=False)
            R.skip('degenerate_prediction_error')
            continue
        R.point(ptp)
        R.calls()
        try:
            xin = A.clone(x)       # keeps a strided view strided
            a, rho, k = spectrum.arburg(xin, p)
            a, k = np.asarray(a), np.asarray(k)
            R.check(np.array_equal(xin, x), 'input_unchanged', feats, ptp, xin, x, 'arburg modified its input array')
        except Exception as e:
            R.viol('modulus', dict(feats, exc=type(e).__name__), ptp, repr(e), None, 'arburg raised on non-degenerate data')
            continue
        okshape = a.shape == (p,) and k.shape == (p,)
        R.check(okshape and np.all(np.abs(k) <= 1.0 + 1e-12), 'modulus', feats, ptp, np.abs(k), '<=1', 'wrong length or |k_i| > 1', outs=(a, rho, k))
        if not okshape:
            continue
        kap = min(lp.kappa(k), 1e8)
        up = lp.stepup(k)[1:]
        R.check(close(a, up, 1e-8 * kap, 1e-10), 'stepup', feats, ptp, a, up, 'returned AR vector != step-up of the returned reflection coefficients',
                err=relerr(a, up))
        rexp = power * float(np.prod(1.0 - np.abs(k) ** 2))
        R.check(abs(rho - rexp) <= 1e-9 * power and np.isrealobj(rho), 'rho', feats, ptp, rho, rexp, 'variance != mean|x|^2 * prod(1-|k_i|^2)')
        # stage-wise optimality with the lattice filter driven by the RETURNED coefficients
        f = x.astype(complex)
        b = x.astype(complex)
        ok = True
        worst = None
        for m in range(1, p + 1):
            kmin, den = rar.burg_stage_min(f, b, m)
            # the implementation updates the stage energy recursively (cancellation ~ eps * N*power/den)
            if abs(kmin - k[m - 1]) > 1e-9 + 1e-11 * (N * power / max(den, 1e-300)):
                ok = False
                worst = (m, kmin, k[m - 1])
                break
            f, b = rar.lattice_step(f, b, k[m - 1], m)
        R.check(ok, 'stage_min', feats, ptp, None if worst is None else [worst[0], worst[2]], None if worst is None else [worst[0], worst[1]],
                'k_i is not the minimiser of the forward+backward error energy of stage i')
        if full is None:
            full = (p, a, rho, k)
            prev_rho = rho
        else:
            R.check(close(k, full[3][:p], 1e-12, 1e-14), 'nest', feats, ptp, k, full[3][:p], 'order-q reflection coefficients are not the first q of the order-p ones')
        # the second ("independent vectorised") formulation kept in burg.py must describe the same model
        if p == pmax or p in (1, 2, 5) or 'p' in pt:
            try:
                from spectrum.burg import _arburg2
            except ImportError:
                _arburg2 = None
                R.skip('no_second_formulation_in_this_tree')
            if _arburg2 is not None:
                R.calls()
                try:
                    a2, e2, k2 = _arburg2(x, p)
                    a2, k2 = np.asarray(a2), np.asarray(k2)
                    ok2 = a2.shape == (p + 1,) and k2.shape == (p,) and abs(a2[0] - 1.0) <= 1e-12 and close(a2[1:], a, 1e-8 * kap, 1e-10) \
                        and close(k2, k, 1e-8 * kap, 1e-10) and abs(e2 - rho) <= 1e-8 * kap * power
                    R.check(ok2, 'arburg2', feats, ptp, [a2, e2], [a, rho], '_arburg2 (second Burg formulation) disagrees with arburg on [1,a], the variance or the reflection coefficients')
                except Exception as e:
                    R.viol('arburg2', dict(feats, exc=type(e).__name__), ptp, repr(e), None, '_arburg2 raised on non-degenerate data')
        # variance non increasing in the order (we iterate downwards)
        if p < pmax and p + 1 <= pgood and 'rho_above' in locals():
            R.check(rho_above <= rho * (1 + 1e-12), 'rho_monotone', feats, ptp, [rho, rho_above], 'rho(p+1) <= rho(p)', 'variance increases with the order')
        rho_above = rho
        # criteria: exactly the plain Burg model of the selected order
        if p == pmax or p in (1, 2, 5) or 'p' in pt:
            for crit in CRITERIA:
                if crit in ('AICc', 'AKICc') and p > N - 3:
                    R.skip('corrected_criterion_undefined_for_p=N-2')   # formula divides by N-p-2
                    continue
                R.calls()
                ptc = dict(ptp, criteria=crit)
                try:
                    ac, rc_, kc = spectrum.arburg(x, p, crit)
                    ac, kc = np.asarray(ac), np.asarray(kc)
                except Exception as e:
                    R.viol('criteria', dict(feats, crit=crit, exc=type(e).__name__), ptc, repr(e), None, 'arburg with a criterion raised')
                    continue
                qsel = len(ac)
                if qsel > p or len(kc) != qsel:
                    R.viol('criteria', dict(feats, crit=crit), ptc, [qsel, len(kc)], '<=p', 'selected order > p or inconsistent lengths')
                    continue
                if qsel == 0:
                    R.check(abs(rc_ - power) <= 1e-12 * power, 'criteria', dict(feats, crit=crit, q='0'), ptc, rc_, power, 'order-0 result must carry the data power')
                    continue
                R.calls()
                aq, rq, kq = spectrum.arburg(x, qsel)
                R.check(close(ac, np.asarray(aq), 1e-12, 1e-14) and abs(rc_ - rq) <= 1e-12 * abs(rq) and close(kc, np.asarray(kq), 1e-12, 1e-14), 'criteria', dict(feats, crit=crit), ptc,
                        [ac, rc_], [aq, rq], 'result with a criterion is not exactly the Burg model of order len(a)', outs=(ac, crit))
        if (p == pmax or p in (2, 5)) and N >= 8:
            # the class with a criterion exposes exactly the model the function returns for the same criterion
            for crit in ('AIC', 'MDL', 'FPE'):
                R.calls(2)
                try:
                    ac, rc_, kc = spectrum.arburg(x, p, crit)
                    oc = spectrum.pburg(x, p, criteria=crit)
                    oc()
                    okc = len(np.asarray(oc.ar)) == len(np.asarray(ac)) and close(np.asarray(oc.ar), np.asarray(ac), 1e-12, 1e-14) and \
                        len(np.asarray(oc.reflection)) == len(np.asarray(kc)) and close(np.asarray(oc.reflection), np.asarray(kc), 1e-12, 1e-14) and abs(oc.rho - rc_) <= 1e-12 * abs(rc_)
                    R.check(okc, 'pburg', dict(feats, crit=crit), dict(ptp, criteria=crit), [oc.ar, oc.rho], [ac, rc_], 'pburg(criteria=...).ar/.rho/.reflection differ from arburg with the same criterion')
                except Exception as e:
                    R.viol('pburg', dict(feats, crit=crit, exc=type(e).__name__), dict(ptp, criteria=crit), repr(e), None, 'pburg with a criterion raised')
        if (p == pmax or p == 2) and p >= 2 and N >= 8:
            # history on one pburg object: compute, change the criteria attribute, recompute explicitly
            for c1, c2 in ((None, 'AIC'), ('AIC', None), ('MDL', 'FPE')):
                R.calls(3)
                try:
                    o = spectrum.pburg(x, p, criteria=c1)
                    o()
                    o.psd
                    o.criteria = c2
                    o()
                    fresh = spectrum.pburg(x, p, criteria=c2)
                    fresh()
                    same = close(np.asarray(o.ar), np.asarray(fresh.ar), 1e-12, 1e-14) and close(np.asarray(o.psd), np.asarray(fresh.psd), 1e-12, 0.0) \
                        if len(np.asarray(o.ar)) == len(np.asarray(fresh.ar)) else False
                    R.check(same, 'pburg_history', dict(feats, change='%s->%s' % (c1, c2)), dict(ptp, history=[c1, c2]), np.asarray(o.ar), np.asarray(fresh.ar),
                            'recomputing a pburg object after changing its criteria does not give the model of a fresh object')
                except Exception as e:
                    R.viol('pburg_history', dict(feats, exc=type(e).__name__), dict(ptp, history=[c1, c2]), repr(e), None, 'pburg history raised')
        if p == pmax or p == 1 or 'p' in pt:
            R.calls()
            try:
                o = spectrum.pburg(x, p, sampling=1.0 if p % 2 else 4.0)
                o()
                R.check(close(np.asarray(o.ar), a, 1e-12, 1e-14) and abs(o.rho - rho) <= 1e-12 * abs(rho) and close(np.asarray(o.reflection), k, 1e-12, 1e-14), 'pburg', feats, ptp,
                        [o.ar, o.rho], [a, rho], 'pburg.ar/.rho/.reflection differ from arburg')
            except Exception as e:
                R.viol('pburg', dict(feats, exc=type(e).__name__), ptp, repr(e), None, 'pburg raised')
