"""C05  NFFT only chooses the sampling grid of one underlying spectrum.  Engine EX (metamorphic)."""
import itertools
import numpy as np

from .. import alphabet as A
from .. import classes as C
from ..core import close, relerr
from . import c03, c04

PROP = 'C05'
USES_MTM = True
RULE = ('EX engine (metamorphic): 12 estimator classes x real/complex x every lattice vector (short-record estimators) and every vector of the fixed families '
        'x EVERY admissible NFFT1 from the estimator minimum to 2N+3 x c in {2,3,4}: the PSD with NFFT=c*NFFT1 at index c*j equals the PSD with NFFT1 at index j '
        '(one-sided: every entry, Nyquist included), and the model parameters (ar, ma, rho, reflection, singular values, taper eigenvalues, weights at common '
        'bins) are identical (1e-12, i.e. rounding level); also through the NFFT setter of a live object. Distinct = digests of the NFFT1 estimate')
ASSUMPTIONS = ['scale_by_freq is off', 'domain as in C03/C04 (well-posed problems)',
               "tolerance 1e-9 relative to the largest value; multitaper 'adapt': 5e-3 (its iteration stops on a global tolerance of 5e-4 times the data power per bin, so the number of iterations may depend on NFFT)"]

CONFIGS = dict(c04.CONFIGS)
SHORT_OK = dict(c04.SHORT_OK)
PARAMS = ['ar', 'ma', 'rho', 'reflection', 'eigenvalues']


def bounds(tier):
    q = tier == 'quick'
    return {'classes': C.NAMES, 'families_N': [12] if q else [12, 13], 'lattice': 'ZC5^%d, ZR(1)^%d (5 short-record classes)' % ((3, 4) if q else (4, 6)),
            'NFFT1': 'every value from the estimator minimum to 2N+3', 'multipliers': [2, 3] if q else [2, 3, 4]}


def expected_clauses(tier):
    return ['grid', 'grid_axis', 'params', 'setter']


def shards(tier):
    q = tier == 'quick'
    out = []
    for cls in C.NAMES:
        for N in ([12] if q else [12, 13]):
            for cplx in (False, True):
                out.append(('fam', cls, N, cplx))
    for cls in SHORT_OK:
        out.append(('lat', cls, 3 if q else 4, True))
        out.append(('lat', cls, 4 if q else 6, False))
    return out


def run_shard(desc, R, tier):
    kind, cls, N, cplx = desc
    mult = [2, 3] if tier == 'quick' else [2, 3, 4]
    if kind == 'fam':
        fam = (A.gen_cplx(N) + A.tones_cplx(N)) if cplx else (A.gen_real(N) + A.tones_real(N))
        if tier == 'quick':
            fam = fam[::2]
        for name, x in fam:
            for o in CONFIGS[cls]:
                lo = C.min_nfft(cls, N, o)
                for nf in range(lo, 2 * N + 4):
                    eval_point({'cls': cls, 'o': o, 'x': x, 'NFFT': nf, 'mult': mult, 'name': name}, R)
    else:
        o = SHORT_OK[cls]
        alpha, dt = (A.ZC5, complex) if cplx else (A.ZR(1), float)
        for s in itertools.product(alpha, repeat=N):
            x = np.array(s, dtype=dt)
            lo = C.min_nfft(cls, N, o)
            for nf in range(lo, 2 * N + 4):
                eval_point({'cls': cls, 'o': o, 'x': x, 'NFFT': nf, 'mult': mult[:2]}, R)


def _get(obj, a):
    v = getattr(obj, a, None)
    return None if v is None else np.asarray(v)


def eval_point(pt, R):
    cls, o, x, nf = pt['cls'], pt['o'], np.asarray(pt['x']), int(pt['NFFT'])
    N = len(x)
    cplx = np.iscomplexobj(x)
    why = c03.admissible('class:' + cls, dict(o, NFFT=nf), x, minlen=0)
    nm = pt.get('name') or ''
    if why is None and cls in ('parma', 'pma') and (nm.endswith('+0') or nm.endswith('+0.001') or nm in ('ramp', 'cramp', 'const')):
        why = 'arma_needs_noise_like_data'
    if why is None and cls == 'MultiTapering' and o.get('method') == 'adapt' and (nm.endswith('+0') or nm.endswith('+0.001') or nm in ('ramp', 'cramp', 'const')):
        # the adaptive iteration stops on a GLOBAL tolerance; on records with a huge dynamic range it is far from converged in the low-power
        # bins when it stops, and the number of iterations depends on NFFT (see DESIGN.md, limits)
        why = 'adapt_not_converged_on_high_dynamic_range_data'
    if why:
        R.point(pt, indomain=False)
        R.skip(why)
        return
    feats = {'cls': cls, 'dtype': 'complex' if cplx else 'real', 'nfft': 'odd' if nf % 2 else 'even'}
    R.calls()
    try:
        o1 = C.make(cls, x, NFFT=nf, sampling=1.0, scale_by_freq=False, **o)
        P1 = np.asarray(o1.psd)
    except Exception as e:
        R.point(pt)
        R.viol('grid', dict(feats, exc=type(e).__name__), pt, repr(e), None, 'estimator raised for an admissible NFFT')
        return
    if not np.all(np.isfinite(P1)):
        R.point(pt, indomain=False)
        R.skip('psd_not_finite(model pole / vanishing projection on the grid)')
        return
    R.point(pt)
    R.dig(P1)
    adapt = cls == 'MultiTapering' and o.get('method') == 'adapt'
    rtol = 5e-3 if adapt else 1e-9
    for c in pt['mult']:
        ptc = dict(pt, mult=[c])
        R.calls()
        try:
            o2 = C.make(cls, x, NFFT=c * nf, sampling=1.0, scale_by_freq=False, **o)
            P2 = np.asarray(o2.psd)
        except Exception as e:
            R.viol('grid', dict(feats, exc=type(e).__name__), ptc, repr(e), None, 'estimator raised for NFFT = c*NFFT1')
            continue
        idx = c * np.arange(len(P1))
        okidx = idx[-1] < len(P2)
        sub = P2[idx] if okidx else None
        if cls in ('pmusic', 'pev') and okidx:
            a, b = 1.0 / sub, 1.0 / P1
        else:
            a, b = sub, P1
        R.check(okidx and close(a, b, rtol, 0.0), 'grid', dict(feats, c=c), ptc, sub, P1,
                'PSD values at frequencies common to the NFFT1 and c*NFFT1 grids differ', err=relerr(a, b) if okidx else None)
        try:
            f1 = np.asarray(o1.frequencies(), dtype=float)
            f2 = np.asarray(o2.frequencies(), dtype=float)
            okf = len(f1) == len(P1) and len(f2) == len(P2) and okidx and close(f2[idx], f1, 1e-12, 1e-15) and o1.NFFT == nf and o2.NFFT == c * nf
        except Exception:
            okf = False
        R.check(okf, 'grid_axis', dict(feats, c=c), ptc, None, None, 'the reported frequencies of common entries differ between the NFFT1 and c*NFFT1 objects (or NFFT is not the requested value)')
        for a_ in PARAMS:
            v1, v2 = _get(o1, a_), _get(o2, a_)
            if v1 is None and v2 is None:
                continue
            same = v1 is not None and v2 is not None and v1.shape == v2.shape and close(v1, v2, 1e-12, 0.0)
            R.check(same, 'params', dict(feats, attr=a_), ptc, v2, v1, 'model parameter depends on NFFT')
        if cls == 'MultiTapering':
            w1, w2 = np.asarray(o1.weights), np.asarray(o2.weights)
            if not adapt:       # adaptive weights are per-frequency iterates, not model parameters (the property lists the tapers only)
                R.check(w1.shape == w2.shape and close(w1, w2, 1e-12, 0.0), 'params', dict(feats, attr='weights'), ptc, w2, w1, 'multitaper weights depend on NFFT')
    # live object: NFFT setter then read
    R.calls()
    try:
        c = pt['mult'][0]
        live = C.make(cls, x, NFFT=nf, sampling=1.0, scale_by_freq=False, **o)
        live.psd
        live.NFFT = c * nf
        Pl = np.asarray(live.psd)
        fresh = np.asarray(C.make(cls, x, NFFT=c * nf, sampling=1.0, scale_by_freq=False, **o).psd)
        R.check(Pl.shape == fresh.shape and close(Pl, fresh, 1e-12, 0.0), 'setter', feats, pt, Pl, fresh,
                'changing NFFT on a live object gives a different estimate than constructing with that NFFT')
    except Exception as e:
        R.viol('setter', dict(feats, exc=type(e).__name__), pt, repr(e), None, 'NFFT setter path raised')
