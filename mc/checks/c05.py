"""C05  NFFT only chooses the sampling grid of one underlying spectrum.  Engine EX (metamorphic)."""
import itertools
import numpy as np

from .. import alphabet as A
from .. import classes as C
from ..core import close, relerr
from . import c03, c04

PROP = 'C05'
USES_MTM = True
RULE = ('EX engine (metamorphic): 12 estimator classes x real/complex x every lattice vector (short-record estimators) and every vector of the fixed families '
        'x EVERY admissible NFFT1 from the estimator minimum to 2N+3 x c in {2,3,4}: the PSD with NFFT=c*NFFT1 at index c*j equals the PSD with NFFT1 at index j '
        '(one-sided: every entry, Nyquist included), and the model parameters (ar, ma, rho, reflection, singular values, taper eigenvalues, weights at common '
        'bins) are identical (1e-12, i.e. rounding level); also through the NFFT setter of a live object; the same grid relation on the function forms speriodogram (detrend on/off x 3 windows x records with a mean) and arma2psd (two-sided / centerdc, real / complex AR, MA, ARMA coefficients). Distinct = digests of the NFFT1 estimate')
ASSUMPTIONS = ['scale_by_freq is off', 'domain as in C03/C04 (well-posed problems)',
               "tolerance 1e-9 relative to the largest value; multitaper 'adapt': 5e-3 (its iteration stops on a global tolerance of 5e-4 times the data power per bin, so the number of iterations may depend on NFFT)"]

CONFIGS = dict(c04.CONFIGS)
SHORT_OK = dict(c04.SHORT_OK)
PARAMS = ['ar', 'ma', 'rho', 'reflection', 'eigenvalues']


def bounds(tier):
    q = tier == 'quick'
    return {'classes': C.NAMES, 'families_N': [12] if q else [12, 13], 'lattice': 'ZC5^%d, ZR(1)^%d (5 short-record classes)' % ((3, 4) if q else (4, 6)),
            'NFFT1': 'every value from the estimator minimum to 2N+3', 'multipliers': [2, 3] if q else [2, 3, 4]}


def expected_clauses(tier):
    return ['grid', 'grid_axis', 'params', 'setter', 'fn_speriodogram', 'fn_arma2psd']


def shards(tier):
    q = tier == 'quick'
    out = []
    for cls in C.NAMES:
        for N in ([12] if q else [12, 13]):
            for cplx in (False, True):
                out.append(('fam', cls, N, cplx))
    for cls in SHORT_OK:
        out.append(('lat', cls, 3 if q else 4, True))
        out.append(('lat', cls, 4 if q else 6, False))
    for N in ([12] if q else [12, 13]):
        for cplx in (False, True):
            out.append(('fn', 'speriodogram', N, cplx))
    for cplx in (False, True):
        out.append(('fn', 'arma2psd', 0, cplx))
    return out


def run_shard(desc, R, tier):
    kind, cls, N, cplx = desc
    mult = [2, 3] if tier == 'quick' else [2, 3, 4]
    if kind == 'fn':
        return _run_fn(cls, N, cplx, mult, tier, R)
    if kind == 'fam':
        fam = (A.gen_cplx(N) + A.tones_cplx(N)) if cplx else (A.gen_real(N) + A.tones_real(N))
        if tier == 'quick':
            fam = fam[::2]
        for name, x in fam:
            for o in CONFIGS[cls]:
                lo = C.min_nfft(cls, N, o)
                for nf in range(lo, 2 * N + 4):
                    eval_point({'cls': cls, 'o': o, 'x': x, 'NFFT': nf, 'mult': mult, 'name': name}, R)
    else:
        o = SHORT_OK[cls]
        alpha, dt = (A.ZC5, complex) if cplx else (A.ZR(1), float)
        for s in itertools.product(alpha, repeat=N):
            x = np.array(s, dtype=dt)
            lo = C.min_nfft(cls, N, o)
            for nf in range(lo, 2 * N + 4):
                eval_point({'cls': cls, 'o': o, 'x': x, 'NFFT': nf, 'mult': mult[:2]}, R)


def _get(obj, a):
    v = getattr(obj, a, None)
    return None if v is None else np.asarray(v)


FN_WINDOWS = ['rectangular', 'hann', 'hamming']
FN_OFFSETS = [0.0, 2.0, -1.5]          # added to the record: the function form detrends (subtracts the mean) only when asked to
FN_COEFS = {False: [[], [-0.5], [0.3, 0.4], [-1.2, 0.9, -0.3]],
            True: [[], [-0.5 + 0.2j], [0.3j, 0.4], [-0.6 + 0.5j, 0.2 - 0.3j, 0.1j]]}


def _run_fn(fn, N, cplx, mult, tier, R):
    """Function-form entry points (the classes pre-process their data, so a grid dependence inside the function can hide behind them)."""
    if fn == 'speriodogram':
        fam = (A.gen_cplx(N) + A.tones_cplx(N)) if cplx else (A.gen_real(N) + A.tones_real(N))
        if tier == 'quick':
            fam = fam[::2]
        for name, x in fam:
            for off in FN_OFFSETS:
                xo = np.asarray(x) + (off * (1 - 0.75j) if cplx else off)
                for win in FN_WINDOWS:
                    for det in (False, True):
                        for nf in range(N, 2 * N + 4):
                            eval_point({'fn': fn, 'x': xo, 'NFFT': nf, 'mult': mult, 'window': win, 'detrend': det, 'name': name}, R)
    else:
        for a in FN_COEFS[cplx]:
            for b in FN_COEFS[cplx]:
                if not a and not b:
                    continue
                for nf in range(max(len(a), len(b)) + 1, 20):
                    for sides in ('default', 'centerdc'):
                        eval_point({'fn': fn, 'A': np.array(a, dtype=complex if cplx else float), 'B': np.array(b, dtype=complex if cplx else float),
                                    'NFFT': nf, 'mult': mult, 'sides': sides}, R)


def _eval_fn(pt, R):
    import spectrum
    fn, nf = pt['fn'], int(pt['NFFT'])
    if fn == 'speriodogram':
        x = np.asarray(pt['x'])
        feats = {'dtype': 'complex' if np.iscomplexobj(x) else 'real', 'nfft': 'odd' if nf % 2 else 'even', 'detrend': bool(pt['detrend']), 'window': pt['window']}
        call = lambda n: np.asarray(spectrum.speriodogram(x.copy(), NFFT=n, detrend=bool(pt['detrend']), sampling=1., scale_by_freq=False, window=pt['window']))
        ref = lambda P, n, c: P[c * np.arange(len(P1))] if c * (len(P1) - 1) < len(P) else None
        msg = 'speriodogram values at frequencies common to the NFFT1 and c*NFFT1 grids differ'
    else:
        a, b = np.asarray(pt['A']), np.asarray(pt['B'])
        feats = {'dtype': 'complex' if np.iscomplexobj(a) else 'real', 'nfft': 'odd' if nf % 2 else 'even', 'A': len(a) > 0, 'B': len(b) > 0, 'sides': pt['sides']}
        call = lambda n: np.asarray(spectrum.arma2psd(A=a.copy() if len(a) else None, B=b.copy() if len(b) else None, rho=1.5, T=1., NFFT=n, sides=pt['sides']))

        def ref(P, n, c):
            if len(P) != n:
                return None
            if pt['sides'] == 'centerdc':       # entry j is frequency (j - n//2)/n
                k1 = np.arange(nf) - nf // 2
                return P[c * k1 + n // 2]
            return P[c * np.arange(nf)]
        msg = 'arma2psd values at frequencies common to the NFFT1 and c*NFFT1 grids differ'
    clause = 'fn_' + fn
    R.calls()
    try:
        P1 = call(nf)
    except Exception as e:
        R.point(pt)
        R.viol(clause, dict(feats, exc=type(e).__name__), pt, repr(e), None, 'function raised for an admissible NFFT')
        return
    if not np.all(np.isfinite(P1)) or (fn == 'arma2psd' and P1.max() > 1e9 * max(P1.min(), 1e-300)):
        R.point(pt, indomain=False)
        R.skip('psd_not_finite(model pole on the grid)')
        return
    R.point(pt)
    R.dig(P1)
    for c in pt['mult']:
        ptc = dict(pt, mult=[c])
        R.calls()
        try:
            P2 = call(c * nf)
            sub = ref(P2, c * nf, c)
        except Exception as e:
            R.viol(clause, dict(feats, exc=type(e).__name__), ptc, repr(e), None, 'function raised for NFFT = c*NFFT1')
            continue
        ok = sub is not None and sub.shape == P1.shape and close(sub, P1, 1e-9, 0.0)
        R.check(ok, clause, dict(feats, c=c), ptc, sub, P1, msg, err=relerr(sub, P1) if sub is not None and sub.shape == P1.shape else None)


def eval_point(pt, R):
    if pt.get('fn'):
        return _eval_fn(pt, R)
    cls, o, x, nf = pt['cls'], pt['o'], np.asarray(pt['x']), int(pt['NFFT'])
    N = len(x)
    cplx = np.iscomplexobj(x)
    why = c03.admissible('class:' + cls, dict(o, NFFT=nf), x, minlen=0)
    nm = pt.get('name') or ''
    if why is None and cls in ('parma', 'pma') and (nm.endswith('+0') or nm.endswith('+0.001') or nm in ('ramp', 'cramp', 'const')):
        why = 'arma_needs_noise_like_data'
    if why is None and cls == 'MultiTapering' and o.get('method') == 'adapt' and (nm.endswith('+0') or nm.endswith('+0.001') or nm in ('ramp', 'cramp', 'const')):
        # the adaptive iteration stops on a GLOBAL tolerance; on records with a huge dynamic range it is far from converged in the low-power
        # bins when it stops, and the number of iterations depends on NFFT (see DESIGN.md, limits)
        why = 'adapt_not_converged_on_high_dynamic_range_data'
    if why:
        R.point(pt, indomain=False)
        R.skip(why)
        return
    feats = {'cls': cls, 'dtype': 'complex' if cplx else 'real', 'nfft': 'odd' if nf % 2 else 'even'}
    R.calls()
    try:
        o1 = C.make(cls, x, NFFT=nf, sampling=1.0, scale_by_freq=False, **o)
        P1 = np.asarray(o1.psd)
    except Exception as e:
        R.point(pt)
        R.viol('grid', dict(feats, exc=type(e).__name__), pt, repr(e), None, 'estimator raised for an admissible NFFT')
        return
    if not np.all(np.isfinite(P1)):
        R.point(pt, indomain=False)
        R.skip('psd_not_finite(model pole / vanishing projection on the grid)')
        return
    R.point(pt)
    R.dig(P1)
    adapt = cls == 'MultiTapering' and o.get('method') == 'adapt'
    rtol = 5e-3 if adapt else 1e-9
    for c in pt['mult']:
        ptc = dict(pt, mult=[c])
        R.calls()
        try:
            o2 = C.make(cls, x, NFFT=c * nf, sampling=1.0, scale_by_freq=False, **o)
            P2 = np.asarray(o2.psd)
        except Exception as e:
            R.viol('grid', dict(feats, exc=type(e).__name__), ptc, repr(e), None, 'estimator raised for NFFT = c*NFFT1')
            continue
        idx = c * np.arange(len(P1))
        okidx = idx[-1] < len(P2)
        sub = P2[idx] if okidx else None
        if cls in ('pmusic', 'pev') and okidx:
            a, b = 1.0 / sub, 1.0 / P1
        else:
            a, b = sub, P1
        R.check(okidx and close(a, b, rtol, 0.0), 'grid', dict(feats, c=c), ptc, sub, P1,
                'PSD values at frequencies common to the NFFT1 and c*NFFT1 grids differ', err=relerr(a, b) if okidx else None)
        try:
            f1 = np.asarray(o1.frequencies(), dtype=float)
            f2 = np.asarray(o2.frequencies(), dtype=float)
            okf = len(f1) == len(P1) and len(f2) == len(P2) and okidx and close(f2[idx], f1, 1e-12, 1e-15) and o1.NFFT == nf and o2.NFFT == c * nf
        except Exception:
            okf = False
        R.check(okf, 'grid_axis', dict(feats, c=c), ptc, None, None, 'the reported frequencies of common entries differ between the NFFT1 and c*NFFT1 objects (or NFFT is not the requested value)')
        for a_ in PARAMS:
            v1, v2 = _get(o1, a_), _get(o2, a_)
            if v1 is None and v2 is None:
                continue
            same = v1 is not None and v2 is not None and v1.shape == v2.shape and close(v1, v2, 1e-12, 0.0)
            R.check(same, 'params', dict(feats, attr=a_), ptc, v2, v1, 'model parameter depends on NFFT')
        if cls == 'MultiTapering':
            w1, w2 = np.asarray(o1.weights), np.asarray(o2.weights)
            if not adapt:       # adaptive weights are per-frequency iterates, not model parameters (the property lists the tapers only)
                R.check(w1.shape == w2.shape and close(w1, w2, 1e-12, 0.0), 'params', dict(feats, attr='weights'), ptc, w2, w1, 'multitaper weights depend on NFFT')
    # live object: NFFT setter then read
    R.calls()
    try:
        c = pt['mult'][0]
        live = C.make(cls, x, NFFT=nf, sampling=1.0, scale_by_freq=False, **o)
        live.psd
        live.NFFT = c * nf
        Pl = np.asarray(live.psd)
        fresh = np.asarray(C.make(cls, x, NFFT=c * nf, sampling=1.0, scale_by_freq=False, **o).psd)
        R.check(Pl.shape == fresh.shape and close(Pl, fresh, 1e-12, 0.0), 'setter', feats, pt, Pl, fresh,
                'changing NFFT on a live object gives a different estimate than constructing with that NFFT')
    except Exception as e:
        R.viol('setter', dict(feats, exc=type(e).__name__), pt, repr(e), None, 'NFFT setter path raised')
