"""C16  Minimum-variance spectrum equals T / (e^H R^-1 e).  Engine EX."""
import itertools
import numpy as np

from .. import alphabet as A
from ..core import close, relerr
from ..ref import ar as rar, lp

PROP = 'C16'
RULE = ('EX engine: every sequence of {-1,0,1}^8 and {0,1,-1,i,1+i}^N and every record of the fixed families (N up to 128) x EVERY dimension m in 2..min(N/2,16) '
        'x NFFT in {2m, 2m+1, 4m, 4m+3, 64} x sampling alphabet; minvar and pminvar are compared with sampling / Re(e^H R^-1 e), R the dense m x m Hermitian '
        'Toeplitz matrix of the autocorrelation implied by a REFERENCE Burg model of order m-1 (lattice recursion written from the definition), '
        'e(f) = [1, e^{2 pi i f}, ...]. Distinct = digests of returned PSDs')
ASSUMPTIONS = ['non-degenerate Burg fit (reference stage energies > 1e-6 of the data energy, variance > 1e-9 of the power); cond(R) <= 1e8',
               'tolerance 1e-8 * cond(R) relative']


def bounds(tier):
    q = tier == 'quick'
    return {'lattice': 'ZR(1)^%d, ZC5^%d' % ((6, 4) if q else (8, 5)), 'families_N': [8, 9, 16] if q else [8, 9, 16, 33, 64, 128], 'm': '2..min(N/2,16)',
            'NFFT': '2m, 2m+1, 4m, 4m+3, 64', 'sampling': A.FS[:3] if q else A.FS}


def expected_clauses(tier):
    return ['quadratic_form', 'positive_real', 'burg_params', 'class']


def shards(tier):
    q = tier == 'quick'
    out = []
    n = 6 if q else 8
    for i0 in range(3):
        for i1 in range(3):
            out.append(('lat', 'ZR1', n, [i0, i1]))
    n = 4 if q else 5
    for i0 in range(5):
        out.append(('lat', 'ZC5', n, [i0]))
    for N in ([8, 9, 16] if q else [8, 9, 16, 33, 64, 128]):
        out.append(('gen', N, False))
        out.append(('gen', N, True))
    return out


def run_shard(desc, R, tier):
    fss = A.FS[:3] if tier == 'quick' else A.FS
    if desc[0] == 'lat':
        _, name, n, pre = desc
        alpha, dt = {'ZR1': (A.ZR(1), float), 'ZC5': (A.ZC5, complex)}[name]
        for t in itertools.product(alpha, repeat=n - len(pre)):
            x = np.array([alpha[i] for i in pre] + list(t), dtype=dt)
            if not np.any(x):
                continue
            for m in range(2, n // 2 + 1):
                for nf in (2 * m, 2 * m + 1, 4 * m + 3):
                    eval_point({'x': x, 'm': m, 'NFFT': nf, 'fs': 1.0}, R)
    else:
        _, N, cplx = desc
        fam = (A.gen_cplx(N) + A.tones_cplx(N)) if cplx else (A.gen_real(N) + A.tones_real(N) + A.pcm(N) + A.pcm64(N))
        fam = fam + A.scaled(fam) + A.strided(fam)
        for name, x in fam:
            for m in range(2, min(N // 2, 16) + 1):
                for nf in sorted(set([2 * m, 2 * m + 1, 4 * m, 4 * m + 3, 64])):
                    if nf < 2 * m:
                        continue
                    for fs in (fss if nf == 2 * m + 1 else [1.0]):
                        eval_point({'x': x, 'm': m, 'NFFT': nf, 'fs': fs, 'name': name}, R)


def eval_point(pt, R):
    import spectrum
    x = A.layout(pt, pt['x'])
    m, nf, fs = int(pt['m']), int(pt['NFFT']), float(pt['fs'])
    N = len(x)
    cplx = np.iscomplexobj(x)
    power = float(np.mean(np.abs(A.prom(x)) ** 2))
    k, rho, dens = rar.burg(x, m - 1)
    if len(k) < m - 1 or np.any(dens < 1e-6 * N * power) or np.any(rho < 1e-9 * power):
        R.point(pt, indomain=False)
        R.skip('degenerate_burg')
        return
    a = lp.stepup(k)[1:]
    r = rar.ar_autocorr(a, rho[-1], m - 1) if m > 1 else np.array([rho[-1]])
    Rm = lp.toeplitz(r)
    cond = np.linalg.cond(Rm)
    if not np.isfinite(cond) or cond > 1e8:
        R.point(pt, indomain=False)
        R.skip('R_ill_conditioned')
        return
    Ri = np.linalg.inv(Rm)
    f = np.arange(nf) / float(nf)
    E = np.exp(2j * np.pi * np.outer(np.arange(m), f))          # columns e(f_k)
    q = np.real(np.einsum('ik,ij,jk->k', np.conj(E), Ri, E))
    ref = fs / q
    feats = {'dtype': 'complex' if cplx else ('narrow-int' if x.dtype.kind in 'iu' else 'real'), 'nfft': 'odd' if nf % 2 else 'even'}
    R.point(pt)
    R.calls()
    try:
        xin = A.clone(x)       # keeps a strided view strided
        psd, A_, k_ = spectrum.minvar(xin, m, sampling=fs, NFFT=nf)
        psd = np.asarray(psd)
        R.check(np.array_equal(xin, x), 'input_unchanged', feats, pt, xin, x, 'minvar modified its input array')
    except Exception as e:
        R.viol('quadratic_form', dict(feats, exc=type(e).__name__), pt, repr(e), ref, 'minvar raised inside its domain')
        return
    tol = 1e-8 * max(cond, 1.0)
    R.check(psd.shape == ref.shape and close(psd, ref, tol, 0.0), 'quadratic_form', feats, pt, psd, ref,
            'minvar != sampling / Re(e^H R^-1 e) with R from the order m-1 Burg model', outs=(psd,), err=relerr(psd, ref) if psd.shape == ref.shape else None)
    R.check(not np.iscomplexobj(psd) and np.all(psd > 0) and np.all(np.isfinite(psd)), 'positive_real', feats, pt, psd, '>0 real', 'PSD not real and strictly positive')
    R.check(np.asarray(A_).shape == (m,) and close(np.asarray(A_), np.concatenate([[1.0], a]), 1e-8 * lp.kappa(k) if len(k) else 1e-8, 1e-10)
            and close(np.asarray(k_), k, 1e-8, 1e-10), 'burg_params', feats, pt, [A_, k_], [np.concatenate([[1.0], a]), k],
            'returned AR vector / reflection coefficients are not those of the order m-1 Burg model')
    if nf in (2 * m + 1, 4 * m):
        R.calls()
        try:
            o = spectrum.pminvar(x, m, NFFT=nf, sampling=fs)
            P = np.asarray(o.psd)
            L = nf if cplx else (nf // 2 + 1 if nf % 2 == 0 else (nf + 1) // 2)
            exp = ref if cplx else 2.0 * ref[:L]
            R.check(P.shape == exp.shape and close(P, exp, tol, 0.0), 'class', feats, pt, P, exp, 'pminvar.psd is not the minvar estimate on the reported grid')
            R.check(np.asarray(o.ar).shape == np.asarray(A_).shape and close(np.asarray(o.ar), np.asarray(A_), 1e-12, 1e-14)
                    and np.asarray(o.reflection).shape == np.asarray(k_).shape and close(np.asarray(o.reflection), np.asarray(k_), 1e-12, 1e-14), 'class', dict(feats, attr='ar/reflection'), pt,
                    [o.ar, o.reflection], [A_, k_], 'pminvar.ar / .reflection are not the AR vector and reflection coefficients returned by minvar')
        except Exception as e:
            R.viol('class', dict(feats, exc=type(e).__name__), pt, repr(e), None, 'pminvar raised inside its domain')
