"""C08  Sampling-rate and scale_by_freq normalisation is uniform.  Engine EX."""
import itertools
import numpy as np

from .. import alphabet as A
from .. import classes as C
from ..core import close, relerr
from . import c03, c04

PROP = 'C08'
USES_MTM = True
RULE = ('EX engine: 12 estimator classes x real/complex fixed families (N=16,17) x every sampling frequency of the alphabet x NFFT in {N, 17, 32, 33} x '
        'scale_by_freq in {False, True}: P_True == P_False * 2 pi / df with df = sampling/NFFT (exactly once); changing sampling rescales frequencies() '
        'proportionally, divides AR/MA/ARMA class spectra by the same factor and leaves periodogram, correlogram, multitaper, MUSIC/EV unchanged; '
        'arma2psd(A,B,rho,T,NFFT) for EVERY coefficient vector A, B of length 0..3 over a 5-letter real/complex alphabet x rho x T x NFFT compared with direct '
        'polynomial evaluation (rho/T)|B|^2/|A|^2. Distinct = digests of returned PSDs')
ASSUMPTIONS = ['minimum variance is excluded from the sampling clause (its sampling factor is C16)', 'tolerance 1e-9 relative',
               'arma2psd domain: NFFT > max(len(A), len(B)); A(f) has no zero on the grid (min |A| > 1e-6)']
COEF = [-0.5, 0.5, 0.9, 0.5j, 0.3 + 0.4j]
UNCHANGED = ['Periodogram', 'pcorrelogram', 'MultiTapering', 'pmusic', 'pev']


def bounds(tier):
    q = tier == 'quick'
    return {'classes': C.NAMES, 'families_N': [16] if q else [16, 17], 'sampling': A.FS, 'NFFT': ['N', 17, 32, 33], 'arma2psd_len': '0..%d' % (2 if q else 3),
            'rho': [0.5, 1, 7], 'T': [0.25, 1, 8000]}


def expected_clauses(tier):
    return ['scale_by_freq', 'axis', 'sampling_model', 'sampling_unchanged', 'arma2psd']


def shards(tier):
    q = tier == 'quick'
    out = []
    for cls in C.NAMES:
        for N in ([16] if q else [16, 17]):
            for cplx in (False, True):
                out.append(('cls', cls, N, cplx))
    for la in range(0, (2 if q else 3) + 1):
        for lb in range(0, (2 if q else 3) + 1):
            if la + lb:
                if la + lb >= 5:
                    for i0 in range(len(COEF)):
                        for i1 in range(len(COEF)):
                            out.append(('arma', la, lb, [i0, i1]))
                else:
                    out.append(('arma', la, lb, []))
    return out


def run_shard(desc, R, tier):
    if desc[0] == 'cls':
        _, cls, N, cplx = desc
        fam = (A.gen_cplx(N) + A.tones_cplx(N)) if cplx else (A.gen_real(N) + A.tones_real(N))
        if tier == 'quick':
            fam = fam[::3]
        for name, x in fam:
            for o in c04.CONFIGS[cls]:
                for nf in (None, 17, 32, 33):
                    eval_point({'kind': 'cls', 'cls': cls, 'o': o, 'x': x, 'NFFT': nf, 'name': name}, R)
            if cls == 'pburg' and (name.startswith('weyl') or name.startswith('cweyl')):      # order 8 needs non-degenerate (noise-like) records
                for crit in ('AIC', 'MDL', 'AKICc', 'FPE'):
                    for nf in (None, 33):
                        eval_point({'kind': 'burgcrit', 'x': x, 'NFFT': nf, 'criteria': crit, 'name': name}, R)
            if cls == 'Periodogram':
                for P in (2, 3):
                    for nf in (None, 33, 64):
                        eval_point({'kind': 'daniell', 'x': x, 'NFFT': nf, 'P': P, 'name': name}, R)
    else:
        _, la, lb, pre = desc
        for a in itertools.product(COEF, repeat=la):
            if any(a[i] != COEF[j] for i, j in enumerate(pre)):
                continue
            for b in itertools.product(COEF, repeat=lb):
                for rho in (0.5, 1.0, 7.0):
                    for T in (0.25, 1.0, 8000.0):
                        for nf in sorted(set([max(la, lb) + 1, max(la, lb) + 2, 8, 9, 16, 17])):
                            eval_point({'kind': 'arma', 'A': np.array(a) if la else None, 'B': np.array(b) if lb else None, 'rho': rho, 'T': T, 'NFFT': nf}, R)


def eval_point(pt, R):
    if pt['kind'] == 'arma':
        from spectrum import arma2psd
        a = None if pt['A'] is None else np.asarray(pt['A'])
        b = None if pt['B'] is None else np.asarray(pt['B'])
        nf, rho, T = int(pt['NFFT']), float(pt['rho']), float(pt['T'])
        la = 0 if a is None else len(a)
        lb = 0 if b is None else len(b)
        if nf <= max(la, lb):
            R.point(pt, indomain=False)
            R.skip('nfft<=order')
            return
        w = np.exp(-2j * np.pi * np.arange(nf) / nf)
        Af = np.ones(nf, dtype=complex)
        Bf = np.ones(nf, dtype=complex)
        for k in range(la):
            Af = Af + a[k] * w ** (k + 1)
        for k in range(lb):
            Bf = Bf + b[k] * w ** (k + 1)
        if np.min(np.abs(Af)) < 1e-6:
            R.point(pt, indomain=False)
            R.skip('pole_on_grid')
            return
        ref = rho / T * np.abs(Bf) ** 2 / np.abs(Af) ** 2
        feats = {'A': la > 0, 'B': lb > 0, 'dtype': 'complex' if (np.iscomplexobj(a) and np.any(np.imag(a) != 0)) or (b is not None and np.any(np.imag(b) != 0)) else 'real'}
        R.point(pt)
        R.calls()
        try:
            obs = np.asarray(arma2psd(a, b, rho=rho, T=T, NFFT=nf))
        except Exception as e:
            R.viol('arma2psd', dict(feats, exc=type(e).__name__), pt, repr(e), ref, 'arma2psd raised inside its domain')
            return
        R.check(obs.shape == ref.shape and not np.iscomplexobj(obs) and close(obs, ref, 1e-9, 0.0), 'arma2psd', feats, pt, obs, ref,
                'arma2psd != (rho/T) |B(f)|^2 / |A(f)|^2 on the grid k/NFFT', outs=(obs,), err=relerr(obs, ref) if obs.shape == ref.shape else None)
        # documented alternative output order: sides='centerdc' = the same values on the centred grid (k - NFFT//2)/NFFT
        R.calls()
        try:
            obs_c = np.asarray(arma2psd(a, b, rho=rho, T=T, NFFT=nf, sides='centerdc'))
            ref_c = np.array([ref[(k - nf // 2) % nf] for k in range(nf)])
            R.check(obs_c.shape == ref_c.shape and close(obs_c, ref_c, 1e-9, 0.0), 'arma2psd', dict(feats, sides='centerdc', nfft='odd' if nf % 2 else 'even'), pt, obs_c, ref_c,
                    "arma2psd(sides='centerdc') is not the model spectrum on the centred grid (k - NFFT//2)/NFFT")
        except Exception as e:
            R.viol('arma2psd', dict(feats, sides='centerdc', exc=type(e).__name__), pt, repr(e), None, "arma2psd(sides='centerdc') raised inside its domain")
        # coefficient containers: single-precision arrays and plain lists hold the same model (rho at the small end of the float range)
        def narrow(v, aslist):
            if v is None:
                return None, None
            v32 = v.astype(np.complex64 if np.iscomplexobj(v) else np.float32)
            wide = v32.astype(complex)
            return (v.tolist() if aslist else v32), (np.asarray(v, dtype=complex) if aslist else wide)
        for aslist in (False, True):
            a2, aw = narrow(a, aslist)
            b2, bw = narrow(b, aslist)
            Af2 = np.ones(nf, dtype=complex)
            Bf2 = np.ones(nf, dtype=complex)
            for k in range(la):
                Af2 = Af2 + aw[k] * w ** (k + 1)
            for k in range(lb):
                Bf2 = Bf2 + bw[k] * w ** (k + 1)
            if np.min(np.abs(Af2)) < 1e-6:
                continue
            rho2 = rho * 1e-60
            ref2 = rho2 / T * np.abs(Bf2) ** 2 / np.abs(Af2) ** 2
            R.calls()
            try:
                obs2 = np.asarray(arma2psd(a2, b2, rho=rho2, T=T, NFFT=nf))
                R.check(obs2.shape == ref2.shape and close(obs2, ref2, 1e-9, 0.0), 'arma2psd', dict(feats, container='list' if aslist else 'single-precision array'), pt, obs2, ref2,
                        'arma2psd on list / float32 / complex64 coefficients (rho = 1e-60 rho) != (rho/T) |B|^2/|A|^2 of those coefficients')
            except Exception as e:
                R.viol('arma2psd', dict(feats, container='list' if aslist else 'single-precision array', exc=type(e).__name__), pt, repr(e), None, 'arma2psd raised on list / single-precision coefficients')
        return
    if pt['kind'] in ('burgcrit', 'daniell'):
        import spectrum
        x, NFFT = np.asarray(pt['x']), pt['NFFT']
        N = len(x)
        nf = C.resolve_nfft(NFFT, N)
        feats = {'cls': 'pburg+criteria' if pt['kind'] == 'burgcrit' else 'pdaniell', 'dtype': 'complex' if np.iscomplexobj(x) else 'real'}
        R.point(pt)
        for fs in (1.0, 4.0, 1000.0):
            ptf = dict(pt, fs=fs)
            R.calls(2)
            try:
                if pt['kind'] == 'burgcrit':
                    mk = lambda sbf: spectrum.pburg(x, 8, criteria=pt['criteria'], NFFT=NFFT, sampling=fs, scale_by_freq=sbf)
                else:
                    mk = lambda sbf: spectrum.pdaniell(x, pt['P'], NFFT=NFFT, sampling=fs, scale_by_freq=sbf)
                Pf = np.asarray(mk(False).psd)
                Pt = np.asarray(mk(True).psd)
            except Exception as e:
                R.viol('scale_by_freq', dict(feats, exc=type(e).__name__), ptf, repr(e), None, 'estimator raised inside its domain')
                continue
            exp = Pf * 2 * np.pi / (fs / nf)
            R.check(Pt.shape == exp.shape and close(Pt, exp, 1e-9, 0.0), 'scale_by_freq', feats, ptf, Pt, exp,
                    'scale_by_freq=True is not the unscaled estimate multiplied once by 2 pi/df, df = sampling/NFFT', outs=(Pf, fs))
        return
    cls, o, x, NFFT = pt['cls'], pt['o'], np.asarray(pt['x']), pt['NFFT']
    N = len(x)
    nf = C.resolve_nfft(NFFT, N)
    cplx = np.iscomplexobj(x)
    why = c03.admissible('class:' + cls, dict(o, NFFT=nf), x, minlen=0)
    nm = pt.get('name') or ''
    if why is None and cls in ('parma', 'pma') and (nm.endswith('+0') or nm.endswith('+0.001') or nm in ('ramp', 'cramp', 'const')):
        why = 'arma_needs_noise_like_data'
    if why is None and nf < max(C.min_nfft(cls, N, o), N if cls in ('Periodogram', 'MultiTapering') else 0):
        why = 'nfft_not_admissible'
    if why:
        R.point(pt, indomain=False)
        R.skip(why)
        return
    feats = {'cls': cls, 'dtype': 'complex' if cplx else 'real'}
    R.point(pt)
    base = {}
    for fs in A.FS:
        ptf = dict(pt, fs=fs)
        R.calls(2)
        try:
            of = C.make(cls, x, NFFT=NFFT, sampling=fs, scale_by_freq=False, **o)
            Pf = np.asarray(of.psd)
            ot = C.make(cls, x, NFFT=NFFT, sampling=fs, scale_by_freq=True, **o)
            Pt = np.asarray(ot.psd)
            fr = np.asarray(of.frequencies(), dtype=float)
            df = float(of.df)
        except Exception as e:
            R.viol('scale_by_freq', dict(feats, exc=type(e).__name__), ptf, repr(e), None, 'estimator raised inside its domain')
            continue
        if not np.all(np.isfinite(Pf)):
            R.skip('psd_not_finite')
            continue
        exp = Pf * 2 * np.pi / (fs / nf)
        R.check(Pt.shape == exp.shape and close(Pt, exp, 1e-9, 0.0) and abs(df - fs / nf) <= 1e-12 * fs / nf, 'scale_by_freq', feats, ptf, Pt, exp,
                'scale_by_freq=True is not the unscaled estimate multiplied once by 2 pi/df, df = sampling/NFFT', outs=(Pf, fs),
                err=relerr(Pt, exp) if Pt.shape == exp.shape else None)
        if cls in ('Periodogram', 'pcorrelogram') and fs in (4.0, 1000.0):
            # the method form <object>.periodogram() takes sampling and scale_by_freq from the object
            R.calls()
            try:
                import spectrum
                om = spectrum.Periodogram(x, NFFT=NFFT, sampling=fs, scale_by_freq=True, window=o.get('window', 'hann')) if cls == 'Periodogram' else \
                    spectrum.FourierSpectrum(x, NFFT=NFFT, sampling=fs, scale_by_freq=True, window='hann', detrend=None)
                pm_ref = np.asarray(spectrum.Periodogram(x, NFFT=NFFT, sampling=fs, scale_by_freq=False, window=o.get('window', 'hann') if cls == 'Periodogram' else 'hann').psd)
                om.periodogram()
                pm = np.asarray(om.psd)
                expm = pm_ref * 2 * np.pi / (fs / nf)
                R.check(pm.shape == expm.shape and close(pm, expm, 1e-9, 0.0), 'scale_by_freq', dict(feats, form='method'), ptf, pm, expm,
                        '<object>.periodogram() with scale_by_freq=True is not the unscaled periodogram multiplied once by 2 pi/df, df = sampling/NFFT')
            except Exception as e:
                R.viol('scale_by_freq', dict(feats, form='method', exc=type(e).__name__), ptf, repr(e), None, '<object>.periodogram() raised')
        if fs in (4.0, 0.02):
            from ..ref import sides as rs
            for sd in (('onesided', 'twosided', 'centerdc') if not cplx else ('twosided', 'centerdc')):
                try:
                    got = np.asarray(of.frequencies(sd), dtype=float)
                    R.check(close(got, rs.axis(sd, nf, fs), 1e-12, 0.0), 'axis', dict(feats, sides=sd), ptf, got, rs.axis(sd, nf, fs),
                            'frequencies(%s) is not the k*sampling/NFFT grid' % sd)
                except Exception as e:
                    R.viol('axis', dict(feats, sides=sd, exc=type(e).__name__), ptf, repr(e), None, 'frequencies() raised')
        base[fs] = (Pf, fr)
    if 1.0 not in base:
        return
    P1, f1 = base[1.0]
    for fs, (Pf, fr) in base.items():
        if fs == 1.0:
            continue
        ptf = dict(pt, fs=fs)
        R.check(fr.shape == f1.shape and close(fr, f1 * fs, 1e-12, 0.0), 'axis', feats, ptf, fr, f1 * fs, 'frequency axis does not scale with the sampling frequency')
        if cls in C.MODEL_SPECTRA:
            exp = P1 / fs
            R.check(Pf.shape == exp.shape and close(Pf, exp, 1e-9, 0.0), 'sampling_model', feats, ptf, Pf, exp,
                    'AR/MA/ARMA class spectrum is not divided by the sampling-frequency ratio')
        elif cls in UNCHANGED:
            a_, b_ = (1.0 / Pf, 1.0 / P1) if cls in ('pmusic', 'pev') else (Pf, P1)
            R.check(Pf.shape == P1.shape and close(a_, b_, 1e-9, 0.0), 'sampling_unchanged', feats, ptf, Pf, P1,
                    'estimate changes with the sampling frequency although it should not')
