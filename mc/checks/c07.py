"""C07  The PSD attribute is never stale.  Engine BFS over setter / call / read histories."""
import numpy as np

from .. import bfs
from .. import alphabet as A
from ..core import close, relerr

PROP = 'C07'
USES_MTM = True
RULE = ('BFS engine: for every estimator class and data type, breadth-first search from the freshly constructed object over the event menu '
        '{data=, NFFT=, sampling=, window=, lag=, detrend=, scale_by_freq=, sides=, ar_order=, ma_order=, obj(), read psd}; canonical state = '
        'complete vars(obj) (private fields, cache, flags, Range object); in every distinct state a disposable rebuild is probed: psd must equal '
        'the psd of a fresh object constructed with the same final attribute values (converted to the same sides), df == sampling/NFFT, '
        'len(frequencies()) == len(psd), and re-assigning each attribute its current value must leave psd unchanged (1e-13).  '
        'Distinct/non-trivial = distinct digests of the psd vectors read in distinct states')
ASSUMPTIONS = ['fresh-object oracle: the first psd read of a newly constructed, never-computed object is taken as the definition of the estimate for its attribute values '
               '(the numerical correctness of that estimate is the business of C01-C05, C08-C19)',
               'event values are fixed small menus inside every estimator documented domain; an exception while replaying a menu event is reported',
               'states are merged only when the complete concrete object state is equal (arrays compared at ~12 significant digits)']

RTOL = 1e-12


def _real(N, j):
    n = np.arange(N)
    return np.cos(2 * np.pi * 0.2 * n + 0.3 * j) + 0.5 * A.weyl(N, j)


def _cplx(N, j):
    n = np.arange(N)
    return np.exp(2j * np.pi * 0.2 * n + 0.3j * j) + 0.5 * A.weylc(N, j)


# two records of the SAME length (a setter that only looks at the size must not get away with it) and one of another length / parity
DATA = {'real': [_real(16, 0), _real(17, 1), _real(16, 2)], 'complex': [_cplx(16, 0), _cplx(17, 1), _cplx(16, 2)]}

COMMON = {'NFFT': [None, 32, 33, 'nextpow2'], 'sampling': [1.0, 4.0, 4.00001],      # two sampling rates that differ by 2.5e-6 (a setter must not treat them as equal)
          'detrend': [None, 'mean'],
          'scale_by_freq': [False, True]}

# class name -> (constructor positional/keyword args, ctor kwarg name per attribute, extra event attributes)
SPECS = {
    'Periodogram': dict(ctor=lambda d: dict(args=(d,), kw=dict(window='hann')),
                        ctor_attr={'sampling': 'sampling', 'window': 'window', 'NFFT': 'NFFT', 'scale_by_freq': 'scale_by_freq', 'detrend': 'detrend'},
                        extra={'window': ['hann', 'rectangular'], 'lag': [-1, 4]}),
    'pcorrelogram': dict(ctor=lambda d: dict(args=(d,), kw=dict(lag=4)),
                         ctor_attr={'sampling': 'sampling', 'window': 'window', 'NFFT': 'NFFT', 'scale_by_freq': 'scale_by_freq', 'detrend': 'detrend', 'lag': 'lag'},
                         extra={'window': ['hamming', 'rectangular'], 'lag': [4, 6, 10]}),
    'pburg': dict(ctor=lambda d: dict(args=(d, 2), kw={}),
                  ctor_attr={'sampling': 'sampling', 'NFFT': 'NFFT', 'scale_by_freq': 'scale_by_freq', 'ar_order': 'order'},
                  extra={'ar_order': [2, 4]}),
    'pyule': dict(ctor=lambda d: dict(args=(d, 2), kw={}),
                  ctor_attr={'sampling': 'sampling', 'NFFT': 'NFFT', 'scale_by_freq': 'scale_by_freq', 'ar_order': 'order'},
                  extra={'ar_order': [2, 0, 4]}),
    'pcovar': dict(ctor=lambda d: dict(args=(d, 2), kw={}),
                   ctor_attr={'sampling': 'sampling', 'NFFT': 'NFFT', 'scale_by_freq': 'scale_by_freq', 'ar_order': 'order'},
                   extra={'ar_order': [2, 0, 4]}),
    'pmodcovar': dict(ctor=lambda d: dict(args=(d, 2), kw={}),
                      ctor_attr={'sampling': 'sampling', 'NFFT': 'NFFT', 'scale_by_freq': 'scale_by_freq', 'ar_order': 'order'},
                      extra={'ar_order': [2, 0, 4]}),
    'parma': dict(ctor=lambda d: dict(args=(d, 2, 2, 8), kw={}),
                  ctor_attr={'sampling': 'sampling', 'NFFT': 'NFFT', 'scale_by_freq': 'scale_by_freq', 'ar_order': 'P', 'ma_order': 'Q', 'lag': 'lag'},
                  extra={'ar_order': [2, 0, 3], 'ma_order': [2, 3], 'lag': [8, 10]}),       # AR order 0 (pure MA part) is valid for parma, pyule, pcovar, pmodcovar
    'pma': dict(ctor=lambda d: dict(args=(d, 2, 6), kw={}),
                ctor_attr={'sampling': 'sampling', 'NFFT': 'NFFT', 'scale_by_freq': 'scale_by_freq', 'ar_order': 'M', 'ma_order': 'Q'},
                extra={'ar_order': [6, 8], 'ma_order': [2, 3]}),
    'pminvar': dict(ctor=lambda d: dict(args=(d, 3), kw={}),
                    ctor_attr={'sampling': 'sampling', 'NFFT': 'NFFT', 'scale_by_freq': 'scale_by_freq', 'ar_order': 'order'},
                    extra={'ar_order': [3, 4]}),
    'pmusic': dict(ctor=lambda d: dict(args=(d, 4), kw=dict(NSIG=2)),
                   ctor_attr={'sampling': 'sampling', 'NFFT': 'NFFT', 'scale_by_freq': 'scale_by_freq', 'ar_order': 'IP'},
                   extra={'ar_order': [4, 5]}, keep=['NSIG']),
    'pev': dict(ctor=lambda d: dict(args=(d, 4), kw=dict(NSIG=2)),
                ctor_attr={'sampling': 'sampling', 'NFFT': 'NFFT', 'scale_by_freq': 'scale_by_freq', 'ar_order': 'IP'},
                extra={'ar_order': [4, 5]}, keep=['NSIG']),
    'MultiTapering': dict(ctor=lambda d: dict(args=(d,), kw=dict(NW=2.5, k=4, method='eigen')),
                          ctor_attr={'sampling': 'sampling', 'NFFT': 'NFFT', 'scale_by_freq': 'scale_by_freq'},
                          extra={}, keep=['NW', 'k', 'method']),
}
QUICK_CLASSES = ['Periodogram', 'pcorrelogram', 'pburg', 'parma']
ALL_CLASSES = list(SPECS)


def bounds(tier):
    if tier == 'quick':
        return {'classes': QUICK_CLASSES, 'datatypes': ['real', 'complex'], 'depth': 3, 'events_per_class': '22-30',
                'cross_type_data': 'depth 2', 'start_states': 'fresh object; object with a computed PSD'}
    return {'classes': ALL_CLASSES, 'datatypes': ['real', 'complex'], 'depth': '5 for %s, 4 for the other eight classes' % QUICK_CLASSES, 'events_per_class': '22-30',
            'cross_type_data': 'depth 3, data= switches real<->complex'}


def expected_clauses(tier):
    return ['fresh', 'df', 'freq_len', 'idempotent', 'attrs']


def events_for(cls, dt, cross=False):
    spec = SPECS[cls]
    ev = []
    nd = len(DATA[dt])
    for i in range(nd):
        ev.append(('data', dt, i))
    # block processing: the caller refills ONE buffer in place and assigns the same object again (records of the buffer's length)
    for i in range(nd):
        if len(DATA[dt][i]) == len(DATA[dt][0]):
            ev.append(('refill', dt, i))
    if cross:
        other = 'complex' if dt == 'real' else 'real'
        for i in range(len(DATA[other])):
            ev.append(('data', other, i))
    for a, vals in COMMON.items():
        for v in vals:
            ev.append(('set', a, v))
    ev.append(('set', 'sampling', 'npf:0.5'))      # a sampling rate computed with numpy (e.g. 1/np.mean(np.diff(t)))
    ev.append(('imul',))                          # obj.data *= 1.5 : augmented assignment through the data property
    ev.append(('scribble',))                      # the caller overwrites, in place and without assigning it, the array it handed to the object earlier
    for a, vals in spec['extra'].items():
        for v in vals:
            ev.append(('set', a, v))
        if a in ('ar_order', 'ma_order') and isinstance(vals[-1], int) and cls != 'pminvar':      # minvar() rejects non-int orders with an explicit TypeError (argument check, not staleness)
            ev.append(('set', a, 'np:%d' % vals[-1]))      # the same order given as a numpy integer (e.g. an element of np.arange)
    sides = ['onesided', 'twosided', 'centerdc', 'default'] if (dt == 'real' and not cross) else ['twosided', 'centerdc', 'default']
    for s in sides:
        ev.append(('set', 'sides', s))
    ev.append(('call',))
    ev.append(('read',))
    return ev


def shards(tier):
    out = []
    classes = QUICK_CLASSES if tier == 'quick' else ALL_CLASSES
    for cls in classes:
        # thorough: depth 5 for the four classes that cover the four families of setters (Fourier, lag-window, AR, ARMA), depth 4 for the other eight
        # (the menu grew to 30+ events; depth 5 for all twelve takes an hour)
        depth = 3 if tier == 'quick' else (5 if cls in QUICK_CLASSES else 4)
        for dt in ('real', 'complex'):
            for e1 in events_for(cls, dt):
                out.append(('bfs', cls, dt, depth, [list(e1)], False))
                if tier == 'quick' and e1 not in (('read',), ('call',)):
                    # second family of start states: an object whose PSD has already been computed (most staleness defects
                    # need a computed PSD first), explored to the same depth
                    out.append(('bfs', cls, dt, depth + 1, [['read'], list(e1)], False))
    # data= switching between real and complex records (depth 2 in quick, 3 in thorough)
    for cls in classes:
        for dt in ('real', 'complex'):
            for e1 in events_for(cls, dt, True):
                out.append(('bfs', cls, dt, 2 if tier == 'quick' else 3, [list(e1)], True))
    return out


def construct(cls, data, **over):
    import spectrum
    spec = SPECS[cls]
    c = spec['ctor'](data)
    kw = dict(c['kw'])
    kw.update(over)
    return getattr(spectrum, cls)(*c['args'], **kw)


def _pyval(v):
    """'np:4' encodes numpy.int64(4), 'npf:0.5' numpy.float64(0.5) in an event (JSON-able); the models use the plain Python value."""
    if isinstance(v, str) and v.startswith('npf:'):
        return float(v[4:])
    return int(v[3:]) if isinstance(v, str) and v.startswith('np:') else v


def _implval(v):
    if isinstance(v, str) and v.startswith('npf:'):
        return np.float64(float(v[4:]))
    return np.int64(int(v[3:])) if isinstance(v, str) and v.startswith('np:') else v


def apply_event(obj, ev):
    if ev[0] in ('data', 'refill', 'set', 'imul'):
        try:
            obj.frequencies()          # a user looks at the axis before changing something: a pure read, it must not freeze anything
        except Exception:
            pass
    if ev[0] == 'data':
        obj.data = DATA[ev[1]][ev[2]].copy()
    elif ev[0] == 'refill':
        buf = obj.__dict__.setdefault('_caller_buffer', DATA[ev[1]][0].copy())     # the caller's reusable block buffer (kept next to the object for the replay)
        if buf.dtype != DATA[ev[1]][ev[2]].dtype:
            buf = obj.__dict__['_caller_buffer'] = DATA[ev[1]][ev[2]].copy()
        buf[:] = DATA[ev[1]][ev[2]]
        obj.data = buf
    elif ev[0] == 'imul':
        obj.data *= 1.5
    elif ev[0] == 'scribble':
        buf = obj.__dict__.get('_caller_buffer')
        if buf is not None:
            buf[...] = buf[::-1] * 3.0 + 1.0
            obj.__dict__['_caller_buffer'] = buf.copy()       # the caller moves on to a new buffer; the old one is garbage from now on
    elif ev[0] == 'set':
        setattr(obj, ev[1], _implval(ev[2]))
    elif ev[0] == 'call':
        obj()
    elif ev[0] == 'read':
        obj.psd
    else:
        raise ValueError(ev)


def build(start, hist):
    buf = DATA[start['dtype']][0].copy()
    obj = construct(start['cls'], buf)
    obj.__dict__['_caller_buffer'] = buf          # the array object the caller handed to the constructor
    for ev in start.get('prefix', ()):
        apply_event(obj, tuple(ev))
    for ev in hist:
        apply_event(obj, tuple(ev))
    return obj


def run_shard(desc, R, tier):
    _, cls, dt, depth, prefix, cross = desc
    start = {'cls': cls, 'dtype': dt, 'prefix': [tuple(e) for e in prefix], 'cross': cross}
    evs = events_for(cls, dt, cross)

    def menu(s, h):
        return evs

    try:
        build(start, ())
    except Exception as e:
        on_exc(start, (), e, R)
        return
    st = bfs.explore(start, menu, build, depth - len(prefix), R,
                     on_state=lambda s, h: check_state(s, h, R),
                     on_exception=lambda s, h, e: on_exc(s, h, e, R))
    R.calls(st['transitions'])
    R.extra['bfs_states(sum over shards; each shard = subtree of one first event)'] += st['states']
    R.extra['bfs_transitions'] += st['transitions']
    R.extra['bfs_shards_reaching_fixpoint'] += 1 if st['fixpoint'] else 0
    R.extra['bfs_max_depth_completed'] = max(R.extra['bfs_max_depth_completed'], st['depth_completed'] + len(prefix))


def _pt(start, hist):
    return {'kind': 'bfs', 'cls': start['cls'], 'dtype': start['dtype'], 'cross': bool(start.get('cross')),
            'history': [list(e) for e in list(start.get('prefix', ())) + list(hist)]}


def _evname(ev):
    return ev[0] if ev[0] != 'set' else ev[1]


def on_exc(start, hist, e, R):
    full = list(start.get('prefix', ())) + list(hist)
    last = _evname(full[-1]) if full else 'construct'
    R.viol('no_exception', {'cls': start['cls'], 'dtype': start['dtype'], 'event': last, 'exc': type(e).__name__},
           _pt(start, hist), repr(e), None, 'an in-domain menu event raised')


def check_state(start, hist, R):
    eval_point(_pt(start, hist), R)


FINAL_ATTRS = ['NFFT', 'sampling', 'detrend', 'scale_by_freq', 'window', 'lag', 'ar_order', 'ma_order']


def model_attrs(cls, dt, hist):
    """Boring reference model of the attribute store: the value every attribute must have after the history
    (last assigned value; NFFT=None / 'nextpow2' are resolved against the data held at the time of the assignment)."""
    import inspect
    import spectrum
    data = DATA[dt][0]
    klass = getattr(spectrum, cls)
    sig = inspect.signature(klass.__init__).parameters
    c = SPECS[cls]['ctor'](data)
    names = [p for p in sig][1:]
    m = {}
    for a, kwname in SPECS[cls]['ctor_attr'].items():
        if kwname in sig and sig[kwname].default is not inspect.Parameter.empty:
            m[a] = sig[kwname].default
    for i in range(1, len(c['args'])):
        for a, kwname in SPECS[cls]['ctor_attr'].items():
            if kwname == names[i]:
                m[a] = c['args'][i]
    for k, v in c['kw'].items():
        for a, kwname in SPECS[cls]['ctor_attr'].items():
            if kwname == k:
                m[a] = v

    def resolve(nf, d):
        if nf is None:
            return len(d)
        if nf == 'nextpow2':
            p = 1
            while p < len(d):
                p *= 2
            return p
        return nf
    m['NFFT'] = resolve(m.get('NFFT'), data)
    for ev in hist:
        if ev[0] in ('data', 'refill'):
            data = DATA[ev[1]][ev[2]]
        elif ev[0] == 'imul':
            data = data * 1.5
        elif ev[0] == 'set' and ev[1] != 'sides':
            m[ev[1]] = resolve(ev[2], data) if ev[1] == 'NFFT' else _pyval(ev[2])
    m['data'] = data
    return m


def _read(obj):
    try:
        return np.array(obj.psd), None
    except Exception as e:
        return None, e


def eval_point(pt, R):
    cls, dt = pt['cls'], pt['dtype']
    hist = [tuple(e) for e in pt['history']]
    start = {'cls': cls, 'dtype': dt}
    spec = SPECS[cls]
    kinds = [_evname(hist[-1])] if hist else ['construct']
    feats = {'cls': cls, 'dtype': dt}
    R.point(pt)
    try:
        obj = build(start, hist)
    except Exception as e:
        R.viol('no_exception', dict(feats, exc=type(e).__name__, event=_evname(hist[-1]) if hist else 'construct'), pt, repr(e), None, 'history raised')
        return
    v, exc = _read(obj)
    R.calls()
    # ---- fresh object with the same final attribute values
    model = model_attrs(cls, dt, hist)
    final = {}
    bad = []
    for a in FINAL_ATTRS:
        if hasattr(obj, a):
            final[a] = getattr(obj, a)
            if a in model:
                if final[a] != model[a]:
                    bad.append((a, final[a], model[a]))
                final[a] = model[a]
    data = model['data']
    try:
        okdata = np.array_equal(np.asarray(obj.data), data) and obj.N == len(data) and obj.datatype == ('complex' if np.iscomplexobj(data) else 'real')
    except Exception:
        okdata = False
    R.check(okdata and not bad, 'attrs', dict(feats, attr=bad[0][0] if bad else 'data'), pt, [b[1] for b in bad] or 'data/N/datatype', [b[2] for b in bad] or 'assigned data',
            'an attribute getter does not return the value last assigned (or data / N / datatype do not describe the assigned record)')
    sides = obj.sides
    over = {}
    later = {}
    for a, val in final.items():
        if a in spec['ctor_attr']:
            over[spec['ctor_attr'][a]] = val
        else:
            later[a] = val
    fv, fexc = None, None
    try:
        c = spec['ctor'](data)
        kw = dict(c['kw'])
        args = list(c['args'])
        # positional args of the parametric constructors are orders/lags: replace them by the final values
        import inspect
        import spectrum
        klass = getattr(spectrum, cls)
        names = [p for p in inspect.signature(klass.__init__).parameters][1:]
        for i in range(1, len(args)):
            nm = names[i]
            if nm in over:
                args[i] = over.pop(nm)
        kw.update(over)
        fresh = klass(*args, **kw)
        for a, val in later.items():
            setattr(fresh, a, val)
        fv = np.array(fresh.psd)
        if fresh.sides != sides:
            fresh.sides = sides
            fv = np.array(fresh.psd)
    except Exception as e:
        fexc = e
    hk = 'last:' + kinds[0]
    if exc is not None or fexc is not None:
        same = exc is not None and fexc is not None and type(exc) is type(fexc)
        R.check(same, 'fresh', dict(feats, events=hk, exc='%s/%s' % (type(exc).__name__, type(fexc).__name__)), pt,
                repr(exc), repr(fexc), 'reading psd raises on one of (history object, fresh object) only', outs=('exc', repr(type(exc))))
        return
    ok = close(v, fv, RTOL, 0.0)
    R.check(ok, 'fresh', dict(feats, events=hk), pt, v, fv,
            'psd after the history != psd of a fresh object with the same final attribute values (sides=%s)' % sides,
            outs=(v, sides), err=relerr(v, fv))
    # ---- df, frequencies
    try:
        df = float(obj.df)
        edf = float(obj.sampling) / float(obj.NFFT)
        R.check(abs(df - edf) <= 1e-12 * abs(edf), 'df', dict(feats, events=hk), pt, df, edf, 'df != sampling/NFFT')
        fr = obj.frequencies()
        R.check(len(fr) == len(v), 'freq_len', dict(feats, events=hk, sides=obj.sides), pt, len(fr), len(v),
                'len(frequencies()) != len(psd)')
    except Exception as e:
        R.viol('df', dict(feats, exc=type(e).__name__), pt, repr(e), None, 'df/frequencies raised')
    # ---- idempotent re-assignment
    for a in ['data', 'sides'] + FINAL_ATTRS:
        if not hasattr(obj, a):
            continue
        try:
            o2 = build(start, hist)
            v0 = np.array(o2.psd)
            s0 = o2.sides
            setattr(o2, a, getattr(o2, a))
            v1 = np.array(o2.psd)
            if o2.sides != s0:
                # a recomputation resets sides to the default: compare the same representation
                o2.sides = s0
                v1 = np.array(o2.psd)
            R.calls(2)
        except Exception as e:
            R.viol('idempotent', dict(feats, attr=a, exc=type(e).__name__), pt, repr(e), None, 're-assigning an unchanged value raised')
            continue
        R.check(v0.shape == v1.shape and close(v1, v0, 1e-13, 0.0), 'idempotent', dict(feats, attr=a), pt, v1, v0,
                're-assigning %s its current value changed psd' % a)


def repro(pt):
    lines = ['import numpy as np, spectrum', '# DATA as in /verif/mc/checks/c07.py',
             'from mc.checks.c07 import DATA, construct', 'o = construct(%r, DATA[%r][0])' % (pt['cls'], pt['dtype'])]
    for ev in pt['history']:
        if ev[0] == 'data':
            lines.append('o.data = DATA[%r][%d]' % (ev[1], ev[2]))
        elif ev[0] == 'imul':
            lines.append('o.data *= 1.5')
        elif ev[0] == 'scribble':
            lines.append('buf[...] = buf[::-1] * 3.0 + 1.0; buf = buf.copy()    # the caller reuses its own array')
        elif ev[0] == 'refill':
            lines.append('buf[:] = DATA[%r][%d]; o.data = buf    # buf = the array given to the constructor' % (ev[1], ev[2]))
        elif ev[0] == 'set':
            lines.append('o.%s = %s' % (ev[1], ('np.int64(%s)' % ev[2][3:]) if isinstance(ev[2], str) and ev[2].startswith('np:') else repr(ev[2])))
        elif ev[0] == 'call':
            lines.append('o()')
        else:
            lines.append('o.psd')
    lines.append('print(o.psd)')
    return '\n'.join(lines)
