"""C17  MUSIC / EV resolve exact sinusoids and expose the data-matrix spectrum.  Engine EX."""
import itertools
import numpy as np

from .. import alphabet as A
from ..core import close, relerr
from ..ref import ar as rar

PROP = 'C17'
RULE = ('EX engine: noiseless sums of K complex exponentials for EVERY K-subset (K<=3) of the NFFT grid (NFFT in {16,17,32}) x amplitude patterns over {1,2,1+i} x '
        'phase patterns x N in {2P, 2P+1, 32, 33, 101+P+4} x EVERY P in K+1..Pmax x method in {music, ev} (function forms and pmusic/pev classes); real sinusoids at '
        'every admissible bin pair; argument validation over the full product NSIG x threshold x criteria.  Checks: for every true bin the maximum over k-1..k+1 '
        'exceeds every value farther than one bin from all true bins; pseudo-spectrum > 0, never NaN; singular values == SVD of the reference forward-backward '
        'matrix, non-increasing, exactly K above 1e-12*s0 (weak tones down to 1e-9 of the strongest are part of the alphabet); invalid argument combinations raise. Distinct = digests of pseudo-spectra')
ASSUMPTIONS = ['EV is run on the noiseless record plus a fixed 1e-6 * Weyl perturbation: its 1/lambda_noise weights are undefined (1/0 or 1/rounding noise) on exactly singular data; MUSIC and the rank clause use the exactly noiseless record',
               'signal-subspace dimension is given explicitly (NSIG=K); exact exponentials on the NFFT grid',
               'the peak clause is stated on bin neighbourhoods (k-1..k+1) so that plateaus of adjacent on-grid frequencies cannot confuse it',
               'reference forward-backward matrix: rows x[i+P-1..i] and conj(x[i+1..i+P]) for ALL i < N-P']
EV_EPS = 1e-6
AMPS = {1: [(1,), (2,), (1 + 1j,)], 2: [(1, 1), (1, 2), (1 + 1j, 2)], 3: [(1, 1, 1), (1, 2, 1 + 1j)]}
PHASES = {1: [(0.0,), (1.0,)], 2: [(0.0, 1.0)], 3: [(0.0, 1.0, 2.0)]}


def bounds(tier):
    q = tier == 'quick'
    return {'NFFT': [16, 17] if q else [16, 17, 32], 'K': '1..2' if q else '1..3', 'P': 'K+1..%d' % (6 if q else 8), 'N': '2P, 2P+1, 32, 33' + ('' if q else ', 105+P'),
            'methods': ['music', 'ev'], 'real_sinusoids': 'every bin 2..NFFT/2-2', 'validation': 'NSIG in {None,-1,0,K,P-1,P,P+1} x threshold in {None,2.0} x criteria in {aic,mdl}'}


def expected_clauses(tier):
    return ['peaks', 'positive', 'singular_values', 'rank', 'class_peaks', 'validation', 'real_peaks']


def shards(tier):
    q = tier == 'quick'
    out = []
    for nf in ([16, 17] if q else [16, 17, 32]):
        for K in ([1, 2] if q else [1, 2, 3]):
            if nf == 32 and K == 3:
                for first in range(nf - 2):
                    out.append(('cx', nf, K, first))
            else:
                out.append(('cx', nf, K, None))
        out.append(('real', nf))
    out.append(('valid',))
    return out


def run_shard(desc, R, tier):
    q = tier == 'quick'
    pmax = 6 if q else 8
    if desc[0] == 'cx':
        _, nf, K, first = desc
        for sub in itertools.combinations(range(nf), K):
            if first is not None and sub[0] != first:
                continue
            for amps in (AMPS[K][:2] if q else AMPS[K]):
                for ph in PHASES[K][:1] if (q or K > 1) else PHASES[K]:
                    for P in range(K + 1, pmax + 1):
                        Ns = [2 * P, 2 * P + 1, 32, 33] if (nf != 32 or K < 3) else [2 * P, 33]
                        if not q and K == 1:
                            Ns = Ns + [105 + P]
                        for N in Ns:
                            for meth in ('music', 'ev'):
                                eval_point({'kind': 'cx', 'NFFT': nf, 'bins': list(sub), 'amps': np.array(amps, dtype=complex), 'phases': list(ph),
                                            'P': P, 'N': N, 'method': meth}, R)
                        if K == 1 and sub[0] % 3 == 1:
                            eval_point({'kind': 'cx', 'NFFT': nf, 'bins': list(sub), 'amps': np.array(amps, dtype=complex), 'phases': list(ph),
                                        'P': P, 'N': 2 * P + 1, 'method': 'music', 'strided': True}, R)
                        if K == 2 and (sub[1] - sub[0]) % nf in (3, nf // 2) and amps == AMPS[2][0]:
                            # a weak second line (1e-9 of the first): still exactly two non-negligible singular values of a noiseless record (MUSIC only:
                            # EV runs on the 1e-6 perturbed record, where such a line is below the perturbation)
                            for N in (2 * P + 1, 33):
                                eval_point({'kind': 'cx', 'NFFT': nf, 'bins': list(sub), 'amps': np.array([1.0, 1e-9], dtype=complex), 'phases': list(ph),
                                            'P': P, 'N': N, 'method': 'music', 'weak': True}, R)
                        if (K == 1 and sub[0] % 3 == 2) or (K == 2 and sub[0] == 1 and sub[1] % 4 == 0):
                            # single-precision complex record (IQ capture): same subspace structure at float32 resolution
                            for meth in ('music', 'ev'):
                                eval_point({'kind': 'cx', 'NFFT': nf, 'bins': list(sub), 'amps': np.array(amps, dtype=complex), 'phases': list(ph),
                                            'P': P, 'N': 2 * P + 1, 'method': meth, 'single': True}, R)
    elif desc[0] == 'real':
        nf = desc[1]
        for k in range(2, nf // 2 - 1):
            for P in range(3, pmax + 1):
                for N in (2 * P, 2 * P + 1, 32, 33):
                    for meth in ('music', 'ev'):
                        eval_point({'kind': 'real', 'NFFT': nf, 'bin': k, 'P': P, 'N': N, 'method': meth}, R)
    else:
        for P in (3, 5):
            for K in (1, 2):
                for nsig in (None, -1, 0, K, P - 1, P, P + 1, 'np:-1', 'np:%d' % K, 'np:%d' % P, 'np:%d' % (P + 1)):
                    for thr in (None, 2.0):
                        for crit in ('aic', 'mdl'):
                            for meth in ('music', 'ev'):
                                eval_point({'kind': 'valid', 'P': P, 'K': K, 'NSIG': nsig, 'threshold': thr, 'criteria': crit, 'method': meth}, R)


def signal(N, nf, bins, amps, phases):
    n = np.arange(N)
    x = np.zeros(N, dtype=complex)
    for k, a, p in zip(bins, amps, phases):
        x = x + a * np.exp(2j * np.pi * ((k * n) % nf) / nf + 1j * p)
    return x


def peak_ok(two, bins, nf):
    """For every true bin the max over k-1..k+1 exceeds every value farther than one bin from all true bins."""
    far = np.ones(nf, dtype=bool)
    for k in bins:
        for d in (-1, 0, 1):
            far[(k + d) % nf] = False
    if not far.any():
        return True, None
    worst = float(np.max(two[far]))
    for k in bins:
        loc = max(two[(k - 1) % nf], two[k % nf], two[(k + 1) % nf])
        if not loc > worst:
            return False, (k, float(loc), worst)
    return True, None


def eval_point(pt, R):
    from spectrum import eigenfre
    import spectrum
    kind = pt['kind']
    if kind == 'valid':
        P, K, nsig, thr, crit, meth = int(pt['P']), int(pt['K']), pt['NSIG'], pt['threshold'], pt['criteria'], pt['method']
        if isinstance(nsig, str):          # the same value as a numpy integer (what len(), argmin() etc. return)
            nsig = np.int64(int(nsig[3:]))
        x = signal(4 * P, 16, [3, 7][:K], [1, 2][:K], [0.0, 1.0][:K]) + 0.05 * A.eta(4 * P, True)
        must_raise = (nsig is not None and thr is not None) or (nsig is not None and (nsig < 0 or nsig >= P))
        R.point(pt)
        R.calls()
        raised = None
        try:
            out = eigenfre.eigen(x, P, NSIG=nsig, method=meth, threshold=thr, NFFT=16, criteria=crit)
        except Exception as e:
            raised = e
        feats = {'expect': 'raise' if must_raise else 'accept', 'method': meth}
        if must_raise:
            R.check(raised is not None, 'validation', feats, pt, 'returned', 'raises', 'invalid NSIG / threshold combination accepted', outs=('r', repr(type(raised))))
        else:
            R.check(raised is None and len(out[0]) == 16 and np.all(np.asarray(out[0]) > 0), 'validation', feats, pt, repr(raised), 'returns a positive pseudo-spectrum',
                    'valid argument combination rejected or non-positive result', outs=(out[0],) if raised is None else ('e',))
        return
    nf, P, N, meth = int(pt['NFFT']), int(pt['P']), int(pt['N']), pt['method']
    if kind == 'cx':
        bins = list(pt['bins'])
        x = signal(N, nf, bins, np.asarray(pt['amps']), list(pt['phases']))
        K = len(bins)
        true_bins = bins
    else:
        k = int(pt['bin'])
        n = np.arange(N)
        x = np.cos(2 * np.pi * ((k * n) % nf) / nf + 0.3)
        K = 2
        true_bins = [k, nf - k]
    if not (N >= 2 * P and K < P):
        R.point(pt, indomain=False)
        R.skip('N<2P or K>=P')
        return
    sclean = np.linalg.svd(rar.fb_matrix(x, P), compute_uv=False)
    if np.sum(sclean > 1e-12 * sclean[0]) != K:
        R.point(pt, indomain=False)
        R.skip('reference_rank!=K')          # e.g. aliased / coincident exponentials for this N
        return
    if pt.get('strided'):
        buf = np.empty(2 * len(x), dtype=x.dtype)      # hand the estimator a non-contiguous view of the same samples
        buf[0::2] = x
        buf[1::2] = 7.0 - x[::-1]
        x = buf[0::2]
    if meth == 'ev':
        # EV weights the noise vectors by 1/lambda_noise: on exactly singular data these are 1/0 or 1/(rounding noise), i.e. undefined.
        # EV is therefore run on the record plus the fixed 1e-6 perturbation (noise singular values ~1e-6, well defined).
        x = x + EV_EPS * A.eta(N, kind == 'cx')
    single = bool(pt.get('single'))
    if single:
        x = x.astype(np.complex64 if np.iscomplexobj(x) else np.float32)
    rt, neg = (1e-4, 1e-4) if single else (1e-9, 1e-12)       # float32 rounding (6e-8) limits how small the noise singular values of a single-precision record can be
    FB = rar.fb_matrix(A.prom(x), P)
    sref = np.linalg.svd(FB, compute_uv=False)
    feats = {'method': meth, 'K': K, 'nfft': 'odd' if nf % 2 else 'even', 'dtype': ('complex' if kind == 'cx' else 'real') + ('-single' if pt.get('single') else ''), 'NP': '>100' if N - P > 100 else '<=100'}
    if pt.get('weak'):
        feats['weak_line'] = True
    R.point(pt)
    R.calls()
    try:
        psd, S = eigenfre.eigen(x, P, NSIG=K, method=meth, NFFT=nf)
        psd, S = np.asarray(psd), np.asarray(S)
    except Exception as e:
        R.viol('peaks', dict(feats, exc=type(e).__name__), pt, repr(e), None, 'eigen raised inside its domain')
        return
    okpos = psd.shape == (nf,) and not np.any(np.isnan(psd)) and np.all(psd > 0) and not np.iscomplexobj(psd)
    R.check(okpos, 'positive', feats, pt, psd, '>0, no NaN', 'pseudo-spectrum not positive / NaN / wrong length', outs=(np.where(np.isfinite(psd), psd, -1.0),))
    if okpos:
        two = np.fft.ifftshift(psd)          # eigen() returns the centred order
        ok, why = peak_ok(two, true_bins, nf)
        R.check(ok, 'peaks' if kind == 'cx' else 'real_peaks', feats, pt, why, None,
                'a true frequency (+-1 bin) does not dominate the bins away from all true frequencies')
    R.check(S.shape == sref.shape and close(S, sref, rt, (1e-5 if single else 1e-12) * sref[0]), 'singular_values', feats, pt, S, sref,
            'returned singular values are not those of the forward-backward data matrix of order P', err=relerr(S, sref, 1e-12) if S.shape == sref.shape else None)
    if kind == 'cx' and K == 1 and int(pt['bins'][0]) % 3 == 0 and not single and N in (2 * P, 33):
        # automatic subspace selection (AIC / MDL rule): the returned singular values are still those of the data matrix
        xx = x if meth == 'ev' else x + EV_EPS * A.eta(N, True)
        sref2 = np.linalg.svd(rar.fb_matrix(xx, P), compute_uv=False)
        for crit in ('aic', 'mdl'):
            R.calls()
            try:
                _p2, S2 = eigenfre.eigen(xx, P, NSIG=None, method=meth, NFFT=nf, criteria=crit)
                S2 = np.asarray(S2)
                R.check(S2.shape == sref2.shape and close(S2, sref2, 1e-9, 1e-12 * sref2[0]), 'singular_values', dict(feats, selection=crit), pt, S2, sref2,
                        'with the %s rule the returned singular values are not those of the forward-backward data matrix' % crit.upper())
            except Exception as e:
                R.viol('singular_values', dict(feats, selection=crit, exc=type(e).__name__), pt, repr(e), None, 'eigen with automatic subspace selection raised')
    if meth == 'music':      # exactly noiseless record: exactly K non-negligible singular values
        R.check(np.all(np.diff(S) <= (1e-6 if single else 1e-12) * S[0]) and int(np.sum(S > neg * S[0])) == K, 'rank', feats, pt, S, K,
                'singular values not in non-increasing order or not exactly K non-negligible ones')
    # class forms on the reported axis
    if kind == 'real' and N in (2 * P, 33):
        R.calls()
        try:
            cls = spectrum.pmusic if meth == 'music' else spectrum.pev
            o = cls(x, P, NSIG=K, NFFT=nf)
            pp = np.asarray(o.psd)
            L = nf // 2 + 1 if nf % 2 == 0 else (nf + 1) // 2
            ok2 = pp.shape == (L,) and not np.any(np.isnan(pp))
            if ok2:
                kb = int(pt['bin'])
                far = np.ones(L, dtype=bool)
                far[max(kb - 1, 0):kb + 2] = False
                ok2 = max(pp[max(kb - 1, 0):kb + 2]) > (np.max(pp[far]) if far.any() else -1)
            R.check(ok2, 'class_peaks', dict(feats, form='real'), pt, pp, None, 'pmusic/pev (real data): the sinusoid does not dominate on the reported one-sided axis')
        except Exception as e:
            R.viol('class_peaks', dict(feats, exc=type(e).__name__), pt, repr(e), None, 'class raised inside its domain')
    if kind == 'cx' and N == 33 and P >= K + 2 and not single and not pt.get('weak'):
        # history on one object: evaluate with a wrong subspace size, correct the NSIG attribute, evaluate again
        R.calls(3)
        try:
            cls = spectrum.pmusic if meth == 'music' else spectrum.pev
            oh = cls(x, P, NSIG=K + 1, NFFT=nf)
            oh()
            oh.NSIG = K
            oh()
            fresh = cls(x, P, NSIG=K, NFFT=nf)
            fresh()
            a_, b_ = np.asarray(oh.psd), np.asarray(fresh.psd)
            R.check(a_.shape == b_.shape and close(1.0 / a_, 1.0 / b_, 1e-9, 1e-12 * float(np.max(1.0 / b_))), 'class_history', feats, pt, a_, b_,
                    'evaluating again after changing the NSIG attribute does not give the pseudo-spectrum of a fresh object with that NSIG')
        except Exception as e:
            R.viol('class_history', dict(feats, exc=type(e).__name__), pt, repr(e), None, 'class history raised')
    if kind == 'cx' and N in (2 * P, 33):
        R.calls()
        try:
            cls = spectrum.pmusic if meth == 'music' else spectrum.pev
            o = cls(x, P, NSIG=K, NFFT=nf)
            pp = np.asarray(o.psd)
            ok2 = pp.shape == (nf,) and not np.any(np.isnan(pp))
            if ok2:
                ok2, why = peak_ok(pp, true_bins, nf)
            R.check(ok2, 'class_peaks', feats, pt, pp, None, 'pmusic/pev: true frequencies do not dominate on the reported two-sided axis')
            R.check(np.asarray(o.eigenvalues).shape == sref.shape and close(np.asarray(o.eigenvalues), sref, rt, (1e-5 if single else 1e-12) * sref[0]), 'singular_values', dict(feats, form='class'), pt,
                    o.eigenvalues, sref, 'pmusic/pev.eigenvalues are not the singular values of the forward-backward data matrix')
        except Exception as e:
            R.viol('class_peaks', dict(feats, exc=type(e).__name__), pt, repr(e), None, 'class raised inside its domain')
