"""C12  Yule-Walker models are stable and match the data autocorrelation.  Engine EX."""
import itertools
import numpy as np

from .. import alphabet as A
from ..core import close, relerr
from ..ref import lp, ar as rar, corr as rc

PROP = 'C12'
RULE = ('EX engine: every non-zero sequence over {-1,0,1} (float and int dtype) and {0,1,-1,i,1+i} of every length in the bound, plus the fixed '
        'noise-like / tone / trend families at lengths up to 200, x EVERY order p in 1..min(N-1,30); aryule, lpc and pyule are executed and compared with '
        'dense normal equations on the reference biased autocorrelation and with least squares on the reference data matrix. Distinct = digests of (a, P, k)')
ASSUMPTIONS = ['non-degenerate: smallest eigenvalue of the reference (p+1)x(p+1) autocorrelation matrix > 1e-9*r0 (numerically singular cases, e.g. noiseless tones at high order, are out of domain)',
               'tolerance 1e-8*cond(T) relative', 'lpc is compared on its coefficients only (its error output uses a different divisor) and for real data only']


def bounds(tier):
    q = tier == 'quick'
    return {'lattice': 'ZR(1)^N 3<=N<=%d, ZI(1)^N N<=%d, ZC5^N 3<=N<=%d' % ((6, 5, 4) if q else (9, 7, 6)),
            'families_N': [8, 9, 16] if q else [8, 9, 16, 33, 64, 200], 'orders': 'all 1..min(N-1,30)'}


def expected_clauses(tier):
    return ['stable', 'normal_eq', 'lstsq', 'lpc', 'pyule', 'pyule_history', 'input_unchanged']


def shards(tier):
    q = tier == 'quick'
    out = []
    for name, lo, hi in (('ZR1', 3, 6 if q else 9), ('ZI1', 3, 5 if q else 7), ('ZC5', 3, 4 if q else 6)):
        for n in range(lo, hi + 1):
            na = 3 if name != 'ZC5' else 5
            if na ** n > 20000:
                for first in range(na):
                    for second in range(na):
                        out.append(('lat', name, n, [first, second]))
            elif n >= 6:
                for first in range(na):
                    out.append(('lat', name, n, [first]))
            else:
                out.append(('lat', name, n, []))
    for N in ([8, 9, 16] if q else [8, 9, 16, 33, 64, 200]):
        out.append(('gen', N, False))
        out.append(('gen', N, True))
    return out


def _alpha(name):
    return {'ZR1': (A.ZR(1), float), 'ZI1': ([-1, 0, 1], np.int64), 'ZC5': (A.ZC5, complex)}[name]


def run_shard(desc, R, tier):
    if desc[0] == 'lat':
        _, name, n, first = desc
        alpha, dt = _alpha(name)
        pre = tuple(alpha[i] for i in first)
        it = (pre + t for t in itertools.product(alpha, repeat=n - len(pre)))
        for s in it:
            x = np.array(s, dtype=dt)
            if not np.any(x):
                continue
            for p in range(1, n):
                eval_point({'x': x, 'p': p}, R)
    else:
        _, N, cplx = desc
        fam = (A.gen_cplx(N) + A.tones_cplx(N)) if cplx else (A.gen_real(N) + A.tones_real(N) + A.pcm(N) + A.pcm64(N))
        fam = fam + A.scaled(fam) + A.strided(fam) + A.extreme(fam) + A.single(fam, 2) + A.shaped(N, cplx)
        for name, x in fam:
            for p in range(1, min(N - 1, 30) + 1):
                eval_point({'x': x, 'p': p, 'name': name}, R)


def eval_point(pt, R):
    import spectrum
    x = A.layout(pt, pt['x'])
    p = int(pt['p'])
    N = len(x)
    cplx = np.iscomplexobj(x)
    feats = {'dtype': 'complex' if cplx else (('int' if x.dtype.itemsize >= 8 else 'narrow-int') if x.dtype.kind in 'iu' else 'real'), 'order': 'p<=4' if p <= 4 else 'p>4'}
    xr = A.prom(x)          # reference quantities use the mathematical sample values
    r = rc.correlation(xr, xr, p, 'biased')
    r0 = float(np.real(r[0]))
    T = lp.toeplitz(r)
    ev = np.linalg.eigvalsh(T)
    if ev.min() <= 1e-9 * r0:
        R.point(pt, indomain=False)
        R.skip('numerically_singular_autocorrelation')
        return
    kap = float(ev.max() / ev.min())
    single = A.is_single(x)
    u = 3e4 if single else 1.0          # float32 / complex64 records may be processed in single precision
    if single:
        feats['dtype'] += '-single'
        if kap > 1e2:
            R.point(pt, indomain=False)
            R.skip('ill_conditioned_for_single_precision')
            return
    tol = 1e-8 * kap * u
    R.point(pt)
    R.calls()
    try:
        xin = A.clone(x)       # keeps a strided view strided
        a, P, k = spectrum.aryule(xin, p, 'biased')
        a = np.asarray(a)
        k = np.asarray(k)
        R.check(np.array_equal(xin, x), 'input_unchanged', feats, pt, xin, x, 'aryule modified its input array')
    except Exception as e:
        R.viol('stable', dict(feats, exc=type(e).__name__), pt, repr(e), None, 'aryule raised on non-degenerate data')
        return
    poly = np.concatenate([[1.0], a])
    mr = lp.max_root(poly)
    R.check(a.shape == (p,) and mr < 1.0 and np.all(np.abs(k) < 1.0) and P > 0 and np.isfinite(P), 'stable', feats, pt,
            [mr, float(np.max(np.abs(k))), float(np.real(P))], '<1, <1, >0', 'root outside the unit circle, |k|>=1 or P<=0', outs=(a, P, k))
    if a.shape != (p,):
        return
    lhs = T @ poly
    rhs = np.zeros(p + 1, dtype=lhs.dtype)
    rhs[0] = P
    R.check(close(lhs, rhs, tol, tol * r0), 'normal_eq', feats, pt, lhs, rhs,
            'T(biased autocorrelation) [1,a]^T != [P,0..0]^T: model autocorrelation does not match lags 0..p', err=relerr(lhs, rhs, tol * r0))
    als, _, _, _ = rar.ls_ar(xr, p, 'autocorrelation')
    R.check(close(a, als, 1e-7 * kap * u, 1e-9 * u), 'lstsq', feats, pt, a, als, "aryule != least squares on the 'autocorrelation' data matrix",
            err=relerr(a, als))
    if not cplx:
        R.calls()
        try:
            al, el = spectrum.lpc(np.array(x, dtype=float), p)
            R.check(close(np.asarray(al), a, 1e-11 * kap * u, 1e-12 * u), 'lpc', feats, pt, al, a, 'lpc coefficients != aryule coefficients')
        except Exception as e:
            R.viol('lpc', dict(feats, exc=type(e).__name__), pt, repr(e), a, 'lpc raised')
    if p in (1, 3) and N >= 8:
        # history on one pyule object: compute, assign another record of the same length, recompute (same and lower order)
        x2 = x[::-1].copy() if not np.array_equal(x[::-1], x) else x + np.arange(N)
        for p2 in sorted(set([p, max(1, p - 1)])):
            R.calls(3)
            try:
                o = spectrum.pyule(x, p)
                o()
                o.data = x2
                o.ar_order = p2
                o()
                a2, P2, k2 = spectrum.aryule(x2, p2, 'biased')
                R.check(close(np.asarray(o.ar), np.asarray(a2), 1e-12, 1e-14) and close(np.asarray(o.reflection), np.asarray(k2), 1e-12, 1e-14), 'pyule_history',
                        dict(feats, order='same' if p2 == p else 'lower'), dict(pt, history=['compute', 'data=reversed', 'ar_order=%d' % p2, 'compute']),
                        np.asarray(o.ar), np.asarray(a2), 'pyule recomputed after a data change does not hold the Yule-Walker model of the new data')
                if p2 == p and not A.is_single(x) and np.asarray(x).dtype.kind in 'fc':
                    # the record edited in place through the object's own data array (no setter involved), then an explicit evaluation
                    R.calls(2)
                    o3 = spectrum.pyule(x, p)
                    o3()
                    o3.data[...] = x2
                    o3()
                    R.check(close(np.asarray(o3.ar), np.asarray(a2), 1e-12, 1e-14), 'pyule_history', dict(feats, order='in-place edit'),
                            dict(pt, history=['compute', 'data[...] = reversed', 'compute']), np.asarray(o3.ar), np.asarray(a2),
                            'an explicit evaluation after editing obj.data in place does not hold the Yule-Walker model of the edited record')
            except Exception as e:
                R.viol('pyule_history', dict(feats, exc=type(e).__name__), pt, repr(e), None, 'pyule history raised')
        if p == 3 and not (x.dtype.kind in 'iu'):
            # three-step history: compute, raise the order beyond the CURRENT record length, then assign a longer record, compute
            R.calls(3)
            try:
                xl = np.concatenate([x, 0.5 * x[::-1] + 0.25, x])
                big = N + 2
                o = spectrum.pyule(x, p, NFFT=4 * N)
                o()
                o.ar_order = big
                o.data = xl
                o()
                a3, P3, k3 = spectrum.aryule(xl, big, 'biased')
                R.check(len(np.asarray(o.ar)) == big and close(np.asarray(o.ar), np.asarray(a3), 1e-12, 1e-14), 'pyule_history', dict(feats, order='raised beyond old N'),
                        dict(pt, history=['compute', 'ar_order=N+2', 'data=3N record', 'compute']), np.asarray(o.ar), np.asarray(a3),
                        'pyule after raising the order and assigning a longer record does not hold the model of that order')
            except Exception as e:
                R.viol('pyule_history', dict(feats, exc=type(e).__name__, order='raised beyond old N'), pt, repr(e), None, 'pyule history raised')
    R.calls()
    try:
        obj = spectrum.pyule(x, p)
        obj()
        R.check(close(np.asarray(obj.ar), a, 1e-12, 1e-14) and close(np.asarray(obj.reflection), k, 1e-12, 1e-14), 'pyule', feats, pt,
                [obj.ar, obj.reflection], [a, k], 'pyule.ar/.reflection differ from aryule')
    except Exception as e:
        R.viol('pyule', dict(feats, exc=type(e).__name__), pt, repr(e), None, 'pyule raised')
