"""C14  Covariance and modified-covariance AR fits are least-squares optimal.  Engine EX."""
import itertools
import numpy as np

from .. import alphabet as A
from ..core import close, relerr
from ..ref import lp, ar as rar

PROP = 'C14'
RULE = ('EX engine: every sequence over {-1,0,1} and {0,1,-1,i,1+i} of every length in the bound, the fixed noise-like / tone families at lengths up to 128, '
        'x EVERY order p with N-p >= p (p <= 20); every p-subset of on-grid frequencies (grid 8, p<=3; grid 12, p<=2) x amplitude patterns x 2 lengths for '
        'exact recovery; arcovar, arcovar_marple, modcovar, modcovar_marple, pcovar, pmodcovar are executed and compared with explicit-loop data matrices, '
        'dense least squares and the orthogonality (normal) equations. Distinct = digests of (coefficients, error)')
ASSUMPTIONS = ['domain: Gram matrix of the reference regressors has condition number <= 1e8 (otherwise the minimiser is not unique / not computable in floating point)',
               'tolerance 1e-9 * cond relative', 'Marple routines return work arrays: only their first p coefficients are compared']


def bounds(tier):
    q = tier == 'quick'
    return {'lattice': 'ZR(1)^N 6<=N<=%d, ZC5^N N=6%s' % (7 if q else 8, '' if q else ''), 'families_N': [8, 9, 16] if q else [8, 9, 16, 32, 64, 128],
            'orders': 'all p with N-p>=p, p<=20', 'recovery': 'grid 8 p<=3, grid 12 p<=2, amplitudes {1,2-i}, N in {2p+2,16}; closely spaced: every run of p adjacent bins of grids 128 (p=4,N=20), 256 (p=3,N=24), 64 (p=3,N=16)'}


def expected_clauses(tier):
    return ['cov_normal', 'cov_ls', 'cov_err', 'cov_marple', 'mod_normal', 'mod_ls', 'mod_err', 'mod_marple', 'class', 'recovery']


def shards(tier):
    q = tier == 'quick'
    out = []
    for n in range(6, (7 if q else 8) + 1):
        for first in range(3):
            for second in range(3):
                out.append(('lat', 'ZR1', n, [first, second]))
    for first in range(5):
        for second in range(5):
            out.append(('lat', 'ZC5', 5 if q else 6, [first, second]))
    for N in ([8, 9, 16] if q else [8, 9, 16, 32, 64, 128]):
        out.append(('gen', N, False))
        out.append(('gen', N, True))
    out.append(('rec', 8, 1))
    out.append(('rec', 8, 2))
    out.append(('rec', 8, 3))
    out.append(('rec', 12, 1))
    out.append(('rec', 12, 2))
    out.append(('close', 128, 20, 4))
    out.append(('close', 256, 24, 3))
    out.append(('close', 64, 16, 3))
    return out


def run_shard(desc, R, tier):
    if desc[0] == 'lat':
        _, name, n, prefix = desc
        alpha, dt = {'ZR1': (A.ZR(1), float), 'ZC5': (A.ZC5, complex)}[name]
        for t in itertools.product(alpha, repeat=n - len(prefix)):
            x = np.array([alpha[i] for i in prefix] + list(t), dtype=dt)
            for p in range(1, n // 2 + 1):
                eval_point({'kind': 'ls', 'x': x, 'p': p}, R)
    elif desc[0] == 'gen':
        _, N, cplx = desc
        fam = (A.gen_cplx(N) + A.tones_cplx(N)) if cplx else (A.gen_real(N) + A.tones_real(N) + A.pcm(N) + A.pcm64(N))
        fam = fam + A.scaled(fam) + A.strided(fam) + A.single(fam)
        for name, x in fam:
            for p in range(1, min(N // 2, 20) + 1):
                eval_point({'kind': 'ls', 'x': x, 'p': p, 'name': name}, R)
    elif desc[0] == 'close':
        # closely spaced lines: every run of p adjacent grid bins (regressor singular-value ratio down to 1e-7); least-squares forms only
        _, G, N, p = desc
        for k0 in range(0, G, 1 if tier == 'thorough' else 4):
            eval_point({'kind': 'rec', 'grid': G, 'bins': [(k0 + i) % G for i in range(p)], 'amps': np.array([1.0 + 0.5j * i for i in range(p)]), 'N': N, 'close': True}, R)
    else:
        _, G, p = desc
        for sub in itertools.combinations(range(G), p):
            for amps in itertools.product([1.0 + 0j, 2.0 - 1j], repeat=p):
                for N in (2 * p + 2, 16):
                    eval_point({'kind': 'rec', 'grid': G, 'bins': list(sub), 'amps': np.array(amps), 'N': N}, R)


def eval_point(pt, R):
    import spectrum
    from spectrum.covar import arcovar_marple
    from spectrum.modcovar import modcovar_marple
    if pt['kind'] == 'rec':
        G, bins, amps, N = int(pt['grid']), list(pt['bins']), np.asarray(pt['amps']), int(pt['N'])
        p = len(bins)
        n = np.arange(N)
        x = sum(a * np.exp(2j * np.pi * k * n / G) for a, k in zip(amps, bins))
        want = np.sort(np.angle(np.exp(2j * np.pi * np.array(bins) / G)))
        R.point(pt)
        for name, fn in (('arcovar', lambda: spectrum.arcovar(x, p)[0]), ('arcovar_marple', lambda: arcovar_marple(x, p)[0][:p]),
                         ('modcovar', lambda: spectrum.modcovar(x, p)[0]), ('modcovar_marple', lambda: modcovar_marple(x, p)[0][:p])):
            feats = {'fn': name, 'p': str(p), 'spacing': 'adjacent' if pt.get('close') else 'grid'}
            if pt.get('close') and name.endswith('marple'):
                continue          # the fast recursions lose 1e-3 in the roots at singular-value ratios of 1e-6 (measured); only the lstsq forms are held to exact recovery there
            R.calls()
            try:
                a = np.asarray(fn())
            except Exception as e:
                R.viol('recovery', dict(feats, exc=type(e).__name__), pt, repr(e), want, 'estimator raised on a noiseless sum of p exponentials')
                continue
            roots = np.roots(np.concatenate([[1.0], a]))
            got = np.sort(np.angle(roots))
            tolr = 1e-5 if pt.get('close') else 1e-6
            ok = len(got) == p and np.all(np.abs(np.abs(roots) - 1.0) < tolr)
            if ok:
                d = np.abs(np.exp(1j * got) - np.exp(1j * want))
                # sort order may differ at the +-pi seam: compare as sets
                ok = all(np.min(np.abs(np.exp(1j * g) - np.exp(1j * want))) < tolr for g in got) and \
                    all(np.min(np.abs(np.exp(1j * w) - np.exp(1j * got))) < tolr for w in want)
            R.check(ok, 'recovery', feats, pt, roots, np.exp(1j * want), 'roots of [1,a] are not the p exponentials', outs=(a, name))
        return
    x = A.layout(pt, pt['x'])
    p = int(pt['p'])
    N = len(x)
    cplx = np.iscomplexobj(x)
    dt = 'complex' if cplx else ('narrow-int' if x.dtype.kind in 'iu' else 'real')
    single = A.is_single(x)
    if single:
        dt += '-single'
    u = 3e4 if single else 1.0        # float32 / complex64 records may be processed in single precision (unit round-off 6e-8 instead of 1.1e-16 ... judged 3e4 x looser than 1e-9)
    for meth, pre in (('covariance', 'cov'), ('modified', 'mod')):
        aref, emin, cond, X = rar.ls_ar(x, p, meth)
        ptm = dict(pt, method=meth)
        feats = {'dtype': dt, 'order': 'p<=2' if p <= 2 else 'p>2'}
        if not np.isfinite(cond) or cond > 1e8:
            R.point(ptm, indomain=False)
            R.skip('gram_ill_conditioned')
            continue
        if single and cond > 1e3:
            R.point(ptm, indomain=False)
            R.skip('gram_ill_conditioned_for_single_precision')
            continue
        R.point(ptm)
        tol = 1e-9 * u * max(cond, 1.0)
        Xc, x1 = X[:, 1:], X[:, 0]
        energy = float(np.real(np.vdot(x1, x1)))
        fn = spectrum.arcovar if meth == 'covariance' else spectrum.modcovar
        R.calls()
        try:
            xin = A.clone(x)       # keeps a strided view strided
            a, e = fn(xin, p)
            a = np.asarray(a)
            R.check(np.array_equal(xin, x), 'input_unchanged', feats, ptm, xin, x, 'estimator modified its input array')
            ok = a.shape == (p,)
            if ok:
                g = np.conj(Xc.T) @ (x1 + Xc @ a)
                R.check(float(np.max(np.abs(g))) <= tol * max(energy, 1e-300) * max(1.0, float(np.max(np.abs(Xc)))) , pre + '_normal', feats, ptm, g, 0,
                        'residual not orthogonal to the regressors', outs=(a, e))
                R.check(close(a, aref, tol, 1e-10 * u), pre + '_ls', feats, ptm, a, aref, 'coefficients != dense least squares on the reference data matrix',
                        err=relerr(a, aref))
                R.check(abs(e - emin) <= tol * max(energy, 1e-300), pre + '_err', feats, ptm, e, emin, 'returned error != minimum energy')
            else:
                R.viol(pre + '_ls', feats, ptm, a, aref, 'wrong number of coefficients')
        except Exception as ex:
            R.viol(pre + '_ls', dict(feats, exc=type(ex).__name__), ptm, repr(ex), aref, 'estimator raised inside its domain')
        # fast (Marple) forms: same coefficients, minimum per sample
        if emin <= 1e-9 * u * energy:
            R.skip('marple_zero_residual')
        else:
            R.calls()
            try:
                if meth == 'covariance':
                    out = arcovar_marple(x, p)
                    am, pm = np.asarray(out[0])[:p], out[1]
                    per = emin / (N - p)
                else:
                    out = modcovar_marple(x, p)
                    am, pm = np.asarray(out[0])[:p], out[1]
                    per = emin / (2.0 * (N - p))
                R.check(close(am, aref, 1e-7 * min(u, 1e3) * max(cond, 1.0), 1e-9 * u) and abs(pm - per) <= 1e-7 * min(u, 1e3) * max(cond, 1.0) * max(per, energy / N * (1e-2 if single else 1e-9)), pre + '_marple', feats, ptm,
                        [am, pm], [aref, per], 'fast recursion: coefficients or per-sample minimum differ from least squares', outs=(am, pm))
            except Exception as ex:
                R.viol(pre + '_marple', dict(feats, exc=type(ex).__name__), ptm, repr(ex), [aref, emin], 'fast recursion raised inside its domain')
        if p <= 3 or p == N // 2:
            R.calls()
            try:
                o = (spectrum.pcovar if meth == 'covariance' else spectrum.pmodcovar)(x, p, NFFT=(None if p % 2 else N + 3))       # the grid must not enter the model
                o()
                R.check(close(np.asarray(o.ar), aref, tol, 1e-10 * u), 'class', dict(feats, cls=meth), ptm, o.ar, aref, 'class .ar != least-squares coefficients')
                if getattr(o, 'rho', None) is not None:
                    per = emin / (N - p) if meth == 'covariance' else emin / (2.0 * (N - p))
                    R.check(abs(o.rho - per) <= tol * max(energy, 1e-300) / (N - p), 'class', dict(feats, cls=meth, attr='rho'), ptm, o.rho, per,
                            'class .rho != minimum prediction-error energy per sample')
                if p <= 2 and N >= 8 and not single:
                    # history: evaluate, assign another record of the same length (same order), evaluate again
                    x2 = A.prom(x)[::-1].copy() * (1.5 if not cplx else 1.5j)
                    a2ref, e2min, c2, _X2 = rar.ls_ar(x2, p, meth)
                    if np.isfinite(c2) and c2 <= 1e8:
                        R.calls(2)
                        o.data = x2
                        o()
                        per2 = e2min / (N - p) if meth == 'covariance' else e2min / (2.0 * (N - p))
                        R.check(close(np.asarray(o.ar), a2ref, 1e-9 * max(c2, 1.0), 1e-10) and (getattr(o, 'rho', None) is None or abs(o.rho - per2) <= 1e-9 * max(c2, 1.0) * max(per2, 1e-300) + 1e-12 * energy / N),
                                'class', dict(feats, cls=meth, history='new data'), ptm, o.ar, a2ref, 'after assigning a new record to the object, .ar / .rho are not the least-squares fit of that record')
            except Exception as ex:
                R.viol('class', dict(feats, cls=meth, exc=type(ex).__name__), ptm, repr(ex), aref, 'class raised')
