"""Core of the bounded-exhaustive explorer: recorder, comparison, digests, sharded runner,
evidence / replay writers.  Everything here is deterministic; VERIF_SEED only rotates the
order in which shards are handed to the worker pool."""
import os
import sys
import json
import time
import hashlib
import traceback
import collections
import multiprocessing as mp

import numpy as np

VERIF_DIR = os.path.dirname(os.path.dirname(os.path.abspath(__file__)))
REPO = os.environ.get('VERIF_REPO', '/repo')
NPROC = int(os.environ.get('VERIF_NPROC', '16'))
# internal: where evidence/ and replays/ are written (mutation runs against scratch trees must not overwrite the real evidence)
OUT_DIR = os.environ.get('VERIF_OUT', VERIF_DIR)


class HarnessError(Exception):
    """The machinery itself is wrong (never reported as a VIOLATION)."""


# --------------------------------------------------------------------------- JSON helpers
def jsonable(x):
    if isinstance(x, dict):
        return {str(k): jsonable(v) for k, v in x.items()}
    if isinstance(x, (list, tuple)):
        return [jsonable(v) for v in x]
    if isinstance(x, np.ndarray):
        if x.dtype == object:
            return [jsonable(v) for v in x.tolist()]
        if x.dtype.kind in 'iufc' and x.dtype not in (np.dtype('float64'), np.dtype('complex128'), np.dtype('int64'), np.dtype('uint64')):
            # narrow / single-precision records (int16 PCM, float32, complex64 ...): the dtype is part of the input, a replay must rebuild it exactly
            wide = {'i': np.int64, 'u': np.int64, 'f': np.float64, 'c': np.complex128}[x.dtype.kind]
            return {'__nd__': str(x.dtype), 'v': jsonable(x.astype(wide))}
        if np.iscomplexobj(x):
            return {'__c__': [x.real.tolist(), x.imag.tolist()]}
        if x.dtype.kind in 'iu':
            return {'__i__': x.tolist()}
        if x.dtype.kind == 'b':
            return x.tolist()
        return _floats(x.tolist())
    if isinstance(x, (np.integer,)):
        return int(x)
    if isinstance(x, (np.bool_,)):
        return bool(x)
    if isinstance(x, (complex, np.complexfloating)):
        return {'__c__': [_floats(float(x.real)), _floats(float(x.imag))]}
    if isinstance(x, (float, np.floating)):
        return _floats(float(x))
    if isinstance(x, (str, int, bool)) or x is None:
        return x
    return repr(x)


def _floats(v):
    if isinstance(v, list):
        return [_floats(u) for u in v]
    if isinstance(v, float) and (v != v or v in (float('inf'), float('-inf'))):
        return repr(v)
    return v


def _unfloat(v):
    if isinstance(v, list):
        return [_unfloat(u) for u in v]
    if isinstance(v, str):
        return float(v)
    return v


def unjson(x):
    if isinstance(x, dict):
        if '__c__' in x and len(x) == 1:
            re, im = x['__c__']
            if isinstance(re, list):
                return np.array(_unfloat(re), dtype=float) + 1j * np.array(_unfloat(im), dtype=float)
            return complex(_unfloat(re), _unfloat(im))
        if '__i__' in x and len(x) == 1:
            return np.array(x['__i__'], dtype=np.int64)
        if '__nd__' in x and len(x) == 2:
            return np.asarray(unjson(x['v'])).astype(np.dtype(x['__nd__']))
        return {k: unjson(v) for k, v in x.items()}
    if isinstance(x, list):
        if x and all(isinstance(v, (int, float)) and not isinstance(v, bool) for v in x) \
                and any(isinstance(v, float) for v in x):
            return np.array(x, dtype=float)
        return [unjson(v) for v in x]
    return x


# --------------------------------------------------------------------------- comparison
def relerr(obs, ref, atol=0.0):
    """Normalised error max|obs-ref| / (max(|ref|,|obs|) + atol-scale).  inf on shape mismatch
    or non-finite mismatch."""
    o = np.asarray(obs)
    r = np.asarray(ref)
    if o.shape != r.shape:
        return float('inf')
    if o.size == 0:
        return 0.0
    o = o.astype(complex) if np.iscomplexobj(o) or np.iscomplexobj(r) else o.astype(float)
    r = r.astype(o.dtype)
    fo = np.isfinite(o)
    fr = np.isfinite(r)
    if not (fo == fr).all():
        return float('inf')
    if not fo.all():
        # non-finite entries must be identical (nan==nan, inf==inf)
        bad = ~fo
        same = np.array_equal(o[bad], r[bad], equal_nan=True)
        if not same:
            return float('inf')
        o = o[fo]
        r = r[fo]
        if o.size == 0:
            return 0.0
    scale = max(float(np.max(np.abs(r))), float(np.max(np.abs(o))))
    d = float(np.max(np.abs(o - r)))
    if d == 0.0:
        return 0.0
    den = scale + atol
    if den == 0.0:
        return float('inf')
    return d / den


def close(obs, ref, rtol=1e-9, atol=0.0):
    """|obs-ref| <= rtol*max(|ref|inf,|obs|inf) + atol  (shapes must match)."""
    o = np.asarray(obs)
    r = np.asarray(ref)
    if o.shape != r.shape:
        return False
    if o.size == 0:
        return True
    if o.dtype == object or r.dtype == object:
        return False
    fo = np.isfinite(o)
    fr = np.isfinite(r)
    if not (fo == fr).all():
        return False
    if not fo.all():
        if not np.array_equal(np.asarray(o)[~fo], np.asarray(r)[~fo], equal_nan=True):
            return False
        o = o[fo]
        r = r[fo]
        if o.size == 0:
            return True
    scale = max(float(np.max(np.abs(r))), float(np.max(np.abs(o))))
    return bool(np.max(np.abs(o - r)) <= rtol * scale + atol)


def digest(*outs):
    """64-bit digest of outputs rounded to about 9 significant digits."""
    h = hashlib.blake2b(digest_size=8)
    for o in outs:
        if o is None:
            h.update(b'N')
            continue
        if isinstance(o, (str, bytes)):
            h.update(o.encode() if isinstance(o, str) else o)
            continue
        a = np.asarray(o)
        if a.dtype == object:
            h.update(repr(o).encode())
            continue
        if a.dtype.kind in 'iub':
            a = a.astype(float)
        if np.iscomplexobj(a):
            a = np.concatenate([a.real.ravel(), a.imag.ravel()])
        a = np.ascontiguousarray(a, dtype=float).ravel()
        h.update(str(a.shape).encode())
        with np.errstate(all='ignore'):
            m, e = np.frexp(a)
            m = np.round(m * (1 << 30))
        h.update(m.tobytes())
        h.update(e.tobytes())
    return int.from_bytes(h.digest(), 'little')


def keystr(clause, feats):
    if not feats:
        return clause
    return clause + '|' + ','.join('%s=%s' % (k, feats[k]) for k in sorted(feats))


# --------------------------------------------------------------------------- recorder
class Rec(object):
    """Per-shard recorder; merged by the parent."""

    def __init__(self, prop, shard=0):
        self.prop = prop
        self.shard = shard
        self.points = 0          # points generated
        self.indomain = 0        # distinct in-domain points / canonical states
        self.ncalls = 0          # implementation calls / event applications
        self.validated = 0       # comparisons of implementation results with the reference
        self.skips = collections.Counter()
        self.clauses = collections.Counter()
        self.maxerr = {}
        self.digests = set()
        self.viols = {}          # key -> dict(first point, count)
        self.known = {}          # (finding id) -> dict(count, first)
        self.first = []
        self.last = None
        self.extra = collections.Counter()
        self.notes = []

    # -- counting
    def point(self, pt=None, indomain=True):
        self.points += 1
        if indomain:
            self.indomain += 1
        if pt is not None:
            if len(self.first) < 1:
                self.first.append(pt)
            self.last = pt

    def calls(self, n=1):
        self.ncalls += n

    def skip(self, reason, n=1):
        self.skips[reason] += n

    def ok(self, clause, *outs, err=None):
        self.clauses[clause] += 1
        self.validated += 1
        if outs:
            self.digests.add(digest(*outs))
        if err is not None:
            if err > self.maxerr.get(clause, 0.0):
                self.maxerr[clause] = float(err)

    def dig(self, *outs):
        self.digests.add(digest(*outs))

    def viol(self, clause, feats, point, obs=None, exp=None, note='', model_ctx=None):
        """Record a violation of `clause`.  feats: dict of discrete features (the violation
        key).  model_ctx: extra objects a defect model may need (not serialised)."""
        from . import findings
        self.validated += 1
        self.clauses[clause + ':VIOL'] += 1
        key = keystr(clause, feats)
        fid = findings.match(self.prop, clause, feats, point, obs, exp, model_ctx)
        if fid is not None:
            k = self.known.setdefault(fid, {'count': 0, 'first': None, 'keys': set()})
            k['count'] += 1
            k['keys'].add(key)
            if k['first'] is None:
                k['first'] = self._pack(clause, key, point, obs, exp, note)
            return
        v = self.viols.setdefault(key, {'count': 0, 'first': None})
        v['count'] += 1
        if v['first'] is None:
            v['first'] = self._pack(clause, key, point, obs, exp, note)

    def check(self, cond, clause, feats, point, obs=None, exp=None, note='', outs=(), err=None,
              model_ctx=None):
        if cond:
            self.ok(clause, *outs, err=err)
        else:
            self.viol(clause, feats, point, obs, exp, note, model_ctx)
        return cond

    def _pack(self, clause, key, point, obs, exp, note):
        return {'property': self.prop, 'clause': clause, 'key': key, 'shard': self.shard,
                'point': jsonable(point), 'observed': jsonable(obs), 'expected': jsonable(exp),
                'note': note}

    # -- merging
    def export(self):
        d = dict(self.__dict__)
        d['first'] = [jsonable(p) for p in self.first]
        d['last'] = jsonable(self.last)
        for k in d['known'].values():
            k['keys'] = sorted(k['keys'])
        return d


def merge(prop, exports):
    exports = sorted(exports, key=lambda d: d['shard'])
    tot = {'points': 0, 'indomain': 0, 'ncalls': 0, 'validated': 0,
           'skips': collections.Counter(), 'clauses': collections.Counter(), 'maxerr': {},
           'digests': set(), 'viols': {}, 'known': {}, 'first': None, 'last': None,
           'extra': collections.Counter(), 'notes': []}
    for d in exports:
        for k in ('points', 'indomain', 'ncalls', 'validated'):
            tot[k] += d[k]
        tot['skips'].update(d['skips'])
        tot['clauses'].update(d['clauses'])
        tot['extra'].update(d['extra'])
        tot['notes'].extend(d['notes'])
        for c, e in d['maxerr'].items():
            if e > tot['maxerr'].get(c, 0.0):
                tot['maxerr'][c] = e
        tot['digests'] |= d['digests']
        for key, v in d['viols'].items():
            t = tot['viols'].setdefault(key, {'count': 0, 'first': None})
            t['count'] += v['count']
            if t['first'] is None:
                t['first'] = v['first']
        for fid, v in d['known'].items():
            t = tot['known'].setdefault(fid, {'count': 0, 'first': None, 'keys': set()})
            t['count'] += v['count']
            t['keys'] |= set(v['keys'])
            if t['first'] is None:
                t['first'] = v['first']
        if tot['first'] is None and d['first']:
            tot['first'] = d['first'][0]
        if d['last'] is not None:
            tot['last'] = d['last']
    return tot


# --------------------------------------------------------------------------- runner
_MOD = None
_TIER = None


def _worker_init(modname, tier):
    global _MOD, _TIER
    import importlib
    _MOD = importlib.import_module(modname)
    _TIER = tier
    if hasattr(_MOD, 'worker_init'):
        _MOD.worker_init(tier)


def _worker_run(job):
    idx, desc = job
    R = Rec(_MOD.PROP, idx)
    try:
        with np.errstate(all='ignore'):
            _MOD.run_shard(desc, R, _TIER)
    except Exception as e:
        tb = traceback.format_exc()
        if R.last is None or os.environ.get('VERIF_STRICT_HARNESS'):
            return {'shard': idx, 'harness_error': tb, 'desc': repr(desc)}
        # An exception escaped the oracle code while it was processing what the implementation returned for the last recorded
        # point (it never happens on the pinned tree: every check is run there in both tiers).  The result could not even be
        # interpreted against the property, which is reported as a violation at that point rather than as a broken harness;
        # the rest of this shard is abandoned (counted in the evidence under extra.shards_aborted).
        R.extra['shards_aborted'] += 1
        R.viol('uninterpretable_result', {'exc': type(e).__name__}, R.last, tb[-1500:], None,
               'the oracle raised while interpreting the result of the implementation at this point (shard %s abandoned)' % repr(desc)[:120])
    return R.export()


def assert_repo():
    import spectrum
    src = os.path.realpath(os.path.join(REPO, 'src'))
    f = os.path.realpath(spectrum.__file__)
    if not f.startswith(src + os.sep):
        raise HarnessError('spectrum imported from %s, expected under %s' % (f, src))


def run_check(mod, tier, seed):
    t0 = time.time()
    assert_repo()
    prop = mod.PROP
    shards = list(mod.shards(tier))
    if not shards:
        raise HarnessError('no shards')
    jobs = list(enumerate(shards))
    # VERIF_SEED only rotates dispatch order; results are merged in shard order.
    rot = seed % len(jobs)
    order = jobs[rot:] + jobs[:rot]
    if getattr(mod, 'USES_MTM', False):
        from . import build
        build.rebuild_mtspeclib()      # before the fork: workers inherit the rebuilt library
    if hasattr(mod, 'parent_init'):
        mod.parent_init(tier)
    nproc = min(NPROC, len(jobs))
    exports = []
    if nproc <= 1 or os.environ.get('VERIF_SERIAL'):
        _worker_init(mod.__name__, tier)
        for j in order:
            exports.append(_worker_run(j))
    else:
        ctx = mp.get_context('fork')
        with ctx.Pool(nproc, initializer=_worker_init, initargs=(mod.__name__, tier)) as pool:
            for e in pool.imap_unordered(_worker_run, order, chunksize=1):
                exports.append(e)
    errs = [e for e in exports if 'harness_error' in e]
    if errs:
        for e in errs[:3]:
            sys.stderr.write('HARNESS ERROR in shard %s %s\n%s\n' % (e['shard'], e['desc'], e['harness_error']))
        raise HarnessError('%d shard(s) failed' % len(errs))
    tot = merge(prop, exports)
    wall = time.time() - t0
    return finish(mod, tier, seed, tot, len(shards), wall)


def write_replay(prop, v):
    d = os.path.join(OUT_DIR, 'replays', prop)
    os.makedirs(d, exist_ok=True)
    h = hashlib.blake2b(json.dumps(v['key']).encode(), digest_size=5).hexdigest()
    clause = ''.join(c if c.isalnum() or c in '-_' else '_' for c in v['clause'])
    path = os.path.join(d, '%s-%s.json' % (clause, h))
    with open(path, 'w') as f:
        json.dump(v, f, indent=1, sort_keys=True)
        f.write('\n')
    return path


def finish(mod, tier, seed, tot, nshards, wall):
    from . import findings
    prop = mod.PROP
    nviol = 0
    lines = []
    for key in sorted(tot['viols']):
        v = tot['viols'][key]
        rec = dict(v['first'])
        rec['count'] = v['count']
        rec['replay_cmd'] = './check %s --replay <this file>' % prop
        if hasattr(mod, 'repro'):
            try:
                rec['repro'] = mod.repro(unjson(rec['point']))
            except Exception:
                rec['repro'] = None
        path = write_replay(prop, rec)
        nviol += 1
        lines.append('VIOLATION property=%s replay=%s' % (prop, path))
        sys.stderr.write('  [%s] %s (%d point(s)) %s\n' % (prop, key, v['count'], rec.get('note', '')))
    known_seen = []
    for fid in sorted(tot['known']):
        k = tot['known'][fid]
        f = findings.get(fid)
        rec = dict(k['first'])
        rec['count'] = k['count']
        rec['finding'] = fid
        path = write_replay(prop, rec)
        print('KNOWN-FINDING: property=%s %s (%d point(s); witness %s)' % (prop, f['what'], k['count'], path))
        known_seen.append({'id': fid, 'points': k['count'], 'keys': sorted(k['keys'])[:20]})
    for f in findings.open_for(prop):
        if f['id'] not in tot['known']:
            print('NOTE: open finding %s of %s matched nothing in this run' % (f['id'], prop))

    ndig = len(tot['digests'])
    harness_problem = None
    if ndig < 2:
        harness_problem = 'vacuous exploration: %d distinct output digests' % ndig
    expect = getattr(mod, 'expected_clauses', lambda tier: [])(tier)
    missing = [c for c in expect if tot['clauses'].get(c, 0) + tot['clauses'].get(c + ':VIOL', 0) == 0]
    if missing and harness_problem is None:
        harness_problem = 'clauses never evaluated in domain: %s' % missing

    samples = []
    if tot['first'] is not None:
        samples.append(tot['first'])
    if tot['last'] is not None and tot['last'] != tot['first']:
        samples.append(tot['last'])
    for key in sorted(tot['viols'])[:2]:
        samples.append({'violating': tot['viols'][key]['first']['point'], 'key': key})
    if not samples:
        samples.append({'note': 'no sample recorded'})
    ev = {
        'property_id': prop,
        'tier': tier,
        'seed': seed,
        'level': 'model_checking',
        'coverage': {
            'states': int(tot['indomain']),
            'transitions': int(tot['ncalls']),
            'traces_validated_against_impl': int(tot['validated']),
            'evaluations': int(tot['points']),
            'distinct_nontrivial': int(ndig),
            'rule': mod.RULE,
            'samples': samples,
            'exhaustive': True,
            'bounds': mod.bounds(tier),
            'shards': nshards,
            'out_of_domain': dict(tot['skips']),
            'clause_checks': dict(tot['clauses']),
            'max_normalised_error_per_clause': {k: float('%.3g' % v) for k, v in tot['maxerr'].items()},
            'caps_hit': [],
            'known_findings_seen': known_seen,
            'extra': dict(tot['extra']),
            'notes': sorted(set(tot['notes']))[:20],
        },
        'assumptions': list(getattr(mod, 'ASSUMPTIONS', [])),
        'wall_s': round(wall, 2),
        'violations': nviol,
    }
    d = os.path.join(OUT_DIR, 'evidence')
    os.makedirs(d, exist_ok=True)
    with open(os.path.join(d, '%s.json' % prop), 'w') as f:
        json.dump(ev, f, indent=1, sort_keys=True)
        f.write('\n')
    print('%s %s: points=%d in-domain=%d impl-calls=%d compared=%d digests=%d skips=%s violations=%d known=%d wall=%.1fs'
          % (prop, tier, tot['points'], tot['indomain'], tot['ncalls'], tot['validated'], ndig,
             dict(tot['skips']), nviol, len(known_seen), wall))
    for ln in lines:
        print(ln)
    if nviol:
        return 1            # reported violations take precedence: code broken badly enough can also starve a clause of in-domain points
    if harness_problem:
        sys.stderr.write('HARNESS ERROR: %s\n' % harness_problem)
        return 2
    return 0


def run_replay(mod, path):
    assert_repo()
    with open(path) as f:
        rec = json.load(f)
    if getattr(mod, 'USES_MTM', False):
        from . import build
        build.rebuild_mtspeclib()
    if hasattr(mod, 'worker_init'):
        mod.worker_init('quick')
    pt = unjson(rec['point'])
    obs = []
    for i in range(2):
        R = Rec(mod.PROP, 0)
        with np.errstate(all='ignore'):
            mod.eval_point(pt, R)
        obs.append((sorted(R.viols), sorted(R.known), json.dumps(
            [R.viols[k]['first']['observed'] for k in sorted(R.viols)], sort_keys=True)))
    if obs[0] != obs[1]:
        raise HarnessError('replay is not deterministic: %r vs %r' % (obs[0], obs[1]))
    print('replayed %s: clauses=%s' % (path, dict(R.clauses)))
    for fid, k in R.known.items():
        from . import findings
        print('KNOWN-FINDING: property=%s %s' % (mod.PROP, findings.get(fid)['what']))
    if R.viols:
        for key in sorted(R.viols):
            v = R.viols[key]['first']
            print('  %s\n    observed=%s\n    expected=%s\n    %s' % (
                key, json.dumps(v['observed'])[:600], json.dumps(v['expected'])[:600], v['note']))
        print('VIOLATION property=%s replay=%s' % (mod.PROP, path))
        return 1
    print('no violation on this tree')
    return 0
