import sys
import os
import argparse
import importlib


def main(argv=None):
    ap = argparse.ArgumentParser(prog='check')
    ap.add_argument('prop', nargs='?')
    ap.add_argument('--tier', default=os.environ.get('VERIF_TIER', 'quick'), choices=['quick', 'thorough'])
    ap.add_argument('--replay')
    ap.add_argument('--selftest', action='store_true')
    a = ap.parse_args(argv)
    from . import core
    try:
        if a.selftest:
            from . import selftest
            return selftest.main()
        if not a.prop:
            ap.error('property id required')
        mod = importlib.import_module('mc.checks.%s' % a.prop.lower())
        if a.replay:
            return core.run_replay(mod, a.replay)
        seed = int(os.environ.get('VERIF_SEED', '0') or 0)
        return core.run_check(mod, a.tier, seed)
    except core.HarnessError as e:
        sys.stderr.write('HARNESS ERROR: %s\n' % e)
        return 2


if __name__ == '__main__':
    sys.exit(main())
