"""BFS: explicit-state breadth-first exploration of operation histories on real objects.

A state is identified with the event history that reaches it; build(start, hist) makes a
fresh real object and replays the events (live objects are never deep-copied).  The
canonical form of a state is the complete concrete state of the object (every entry of
vars(obj), nested objects expanded, arrays digested at ~12 significant digits), so two
histories with the same canonical form have identical futures and merging them is sound."""
import hashlib
import numpy as np


def _canon_value(v, depth=0):
    if isinstance(v, np.ndarray):
        if v.dtype == object:
            return ('objarr', tuple(_canon_value(u, depth + 1) for u in v.tolist()))
        a = v
        if a.dtype.kind in 'iub':
            a = a.astype(float)
        if np.iscomplexobj(a):
            a = np.concatenate([a.real.ravel(), a.imag.ravel()])
        a = np.ascontiguousarray(a, dtype=float).ravel()
        with np.errstate(all='ignore'):
            m, e = np.frexp(a)
            m = np.round(m * float(1 << 40))
        h = hashlib.blake2b(digest_size=10)
        h.update(m.tobytes())
        h.update(e.tobytes())
        return ('arr', v.shape, v.dtype.kind, h.hexdigest())
    if isinstance(v, (list, tuple)):
        return (type(v).__name__,) + tuple(_canon_value(u, depth + 1) for u in v)
    if isinstance(v, dict):
        return ('dict',) + tuple((str(k), _canon_value(v[k], depth + 1)) for k in sorted(v, key=str))
    if isinstance(v, (bool, int, str)) or v is None:
        return v
    if isinstance(v, (float, np.floating)):
        return ('f', float('%.12g' % float(v)))
    if isinstance(v, (complex, np.complexfloating)):
        return ('c', float('%.12g' % v.real), float('%.12g' % v.imag))
    if isinstance(v, (np.integer,)):
        return int(v)
    if isinstance(v, type):
        return ('type', v.__module__ + '.' + v.__qualname__)
    if hasattr(v, '__dict__') and depth < 4:
        return ('obj', type(v).__name__) + tuple((k, _canon_value(u, depth + 1)) for k, u in sorted(vars(v).items()))
    return ('repr', repr(v))


def canon(obj):
    """Full concrete state of obj as a hashable tuple."""
    return _canon_value(obj)


def explore(start, menu, build, depth, R, on_state, on_exception=None, canon_fn=canon):
    """Breadth-first search from build(start, ()).
    menu(start, hist) -> iterable of events applicable after hist.
    on_state(start, hist) is called once per distinct canonical state (it rebuilds its own
    disposable object).  Returns dict(states, transitions, depth_completed, fixpoint)."""
    obj = build(start, ())
    seen = {canon_fn(obj): ()}
    on_state(start, ())
    frontier = [()]
    trans = 0
    fix = False
    done = 0
    for d in range(1, depth + 1):
        nxt = []
        for hist in frontier:
            for ev in menu(start, hist):
                h2 = hist + (ev,)
                trans += 1
                try:
                    obj = build(start, h2)
                except Exception as e:
                    if on_exception is not None:
                        on_exception(start, h2, e)
                    continue
                k = canon_fn(obj)
                if k in seen:
                    continue
                seen[k] = h2
                on_state(start, h2)
                nxt.append(h2)
        frontier = nxt
        done = d
        if not frontier:
            fix = True
            break
    return {'states': len(seen), 'transitions': trans, 'depth_completed': done, 'fixpoint': fix,
            'frontier_left': len(frontier)}
