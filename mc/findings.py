"""Known findings: /verif/known_findings.txt (committed, never written at run time).

Line formats
  fixed: property=<id> <commit> <what failed>
  open: property=<id> id=<Fnn> clause=<clause|*> key=<k=v,k=v|*> model=<name> :: <what fails>

An open entry suppresses a violation only when (a) property, clause and every key=value of
the entry match the violation key and (b) the entry's defect model (mc/defects.py) predicts
exactly the observed output for that point.  Fixed entries suppress nothing."""
import os
import re

_PATH = os.path.join(os.path.dirname(os.path.dirname(os.path.abspath(__file__))), 'known_findings.txt')
_ENTRIES = None


def load():
    global _ENTRIES
    if _ENTRIES is not None:
        return _ENTRIES
    ents = []
    if os.path.exists(_PATH):
        for ln in open(_PATH):
            ln = ln.strip()
            if not ln or ln.startswith('#'):
                continue
            if ln.startswith('fixed:'):
                m = re.match(r'fixed:\s+property=(\S+)\s+(\S+)\s+(.*)', ln)
                if not m:
                    raise ValueError('bad fixed entry: ' + ln)
                ents.append({'status': 'fixed', 'property': m.group(1), 'commit': m.group(2), 'what': m.group(3)})
            elif ln.startswith('open:'):
                head, _, what = ln.partition('::')
                m = re.match(r'open:\s+property=(\S+)\s+id=(\S+)\s+clause=(\S+)\s+key=(\S+)\s+model=(\S+)', head.strip())
                if not m:
                    raise ValueError('bad open entry: ' + ln)
                feats = {}
                if m.group(4) != '*':
                    for kv in m.group(4).split(','):
                        k, _, v = kv.partition('=')
                        feats[k] = v
                ents.append({'status': 'open', 'property': m.group(1), 'id': m.group(2), 'clause': m.group(3),
                             'feats': feats, 'model': m.group(5), 'what': what.strip()})
            else:
                raise ValueError('bad known-findings line: ' + ln)
    _ENTRIES = ents
    return ents


def open_for(prop):
    return [e for e in load() if e['status'] == 'open' and e['property'] == prop]


def get(fid):
    for e in load():
        if e.get('id') == fid:
            return e
    raise KeyError(fid)


def match(prop, clause, feats, point, obs, exp, ctx):
    for e in open_for(prop):
        if e['clause'] != '*' and e['clause'] != clause:
            continue
        if any(str(feats.get(k)) != v for k, v in e['feats'].items()):
            continue
        from . import defects
        model = getattr(defects, e['model'])
        try:
            if model(clause, feats, point, obs, exp, ctx):
                return e['id']
        except Exception:
            continue
    return None
