"""Rebuild the C taper routine from <repo>/src/cpp/mydpss.c into a temporary directory (outside
/repo and /verif), load it and install it as spectrum.mtm.mtspeclib.  The committed .so under
src/spectrum is never trusted.  The directory is removed at exit."""
import atexit
import ctypes
import os
import shutil
import subprocess
import tempfile

from .core import REPO, HarnessError

_LIB = None


def rebuild_mtspeclib():
    global _LIB
    if _LIB is not None:
        return _LIB
    src = os.path.join(REPO, 'src', 'cpp', 'mydpss.c')
    if not os.path.exists(src):
        raise HarnessError('missing ' + src)
    d = tempfile.mkdtemp(prefix='verif_mydpss_')
    atexit.register(shutil.rmtree, d, True)
    so = os.path.join(d, 'mydpss_verif.so')
    cmd = ['gcc', '-O2', '-shared', '-fPIC', '-o', so, src, '-lm']
    p = subprocess.run(cmd, capture_output=True, text=True)
    if p.returncode != 0:
        raise HarnessError('cannot compile mydpss.c: ' + p.stderr[-2000:])
    lib = ctypes.CDLL(so)
    import spectrum.mtm as mtm
    mtm.mtspeclib = lib
    _LIB = lib
    return lib
