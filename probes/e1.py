import warnings; warnings.filterwarnings("ignore")
import numpy as np, scipy.linalg as sl
from spectrum import *
from spectrum.toeplitz import TOEPLITZ, HERMTOEP
rng=np.random.default_rng(0)
# TOEPLITZ convention
T0=5.; TC=np.array([1.,2.,-1.]); TR=np.array([0.5,-1.,1.5]); Z=np.array([1.,2.,3.,4.])
X=TOEPLITZ(T0,TC,TR,Z)
T=sl.toeplitz(np.r_[T0,TC],np.r_[T0,TR])
print("TOEPLITZ col/row resid",np.abs(T@X-Z).max(), "transposed", np.abs(T.T@X-Z).max())
# complex general
TCc=TC+1j*np.array([.3,-.2,.1]); TRc=TR-1j*np.array([.1,.2,.3]); Zc=Z+1j
try:
    X=TOEPLITZ(T0,TCc,TRc,Zc); T=sl.toeplitz(np.r_[T0,TCc],np.r_[T0,TRc]); print("complex resid",np.abs(T@X-Zc).max(), np.abs(T.T@X-Zc).max())
except Exception as e: print("complex TOEPLITZ raises",type(e),e)
# HERMTOEP
Th=np.array([1+1j,0.5-0.2j,0.1j]); 
X=HERMTOEP(T0,Th,Zc)
T=sl.toeplitz(np.r_[T0,Th]) # first col = c, first row = conj(c)
print("HERMTOEP resid col=T", np.abs(T@X-Zc).max(), "conj", np.abs(T.conj()@X-Zc).max())
# LEVINSON convention
r=np.array([3., -2+0.5j, .7-1j])
a,P,k=LEVINSON(r)
T=sl.toeplitz(r)  # T[i,j]=r[i-j] for i>=j, conj for upper
print("LEV", T@np.r_[1,a], P)
# rc2poly complex
try:
    print("rc2poly complex", rc2poly(np.array([0.5+0.2j,-0.3j]), 2.0))
except Exception as e: print("rc2poly complex raises", type(e), e)
try:
    print("rc2poly list complex", rc2poly([0.5+0.2j,-0.3j], 2.0))
except Exception as e: print("rc2poly complex list raises", type(e), e)
print("rc2poly real", rc2poly([0.5,-0.3], 2.0))
try: print("rc2ac complex", rc2ac(np.array([0.5+0.2j,-0.3j]), 2.0))
except Exception as e: print("rc2ac complex raises", type(e), e)
# consistency ac -> rc -> ac complex
r=np.array([3., -2+0.5j, .7-1j])
k,r0=ac2rc(r); print("ac2rc",k,r0)
a,e=ac2poly(r); print("ac2poly",a,e)
print("poly2ac", poly2ac(a,e))
print("poly2rc", poly2rc(a,e))
