import warnings; warnings.filterwarnings("ignore")
import numpy as np, collections
from spectrum import *
from spectrum.psd import Spectrum
def axis(sides,NFFT):
    # ideal axes in units of bins (integers), centerdc: -(NFFT//2) .. 
    if sides=='onesided': return list(range(0,NFFT//2+1))
    if sides=='twosided': return list(range(NFFT))
    if sides=='centerdc': return [a-NFFT//2 for a in range(NFFT)]
def M(src,dst,NFFT):
    A=axis(src,NFFT); B=axis(dst,NFFT)
    m=np.zeros((len(B),len(A)))
    for j,fa in enumerate(A):
        if src=='onesided':
            # value at |f|; interior split
            targets=[]
            if dst=='onesided': targets=[(fa,1.0)]
            else:
                if fa==0 or (NFFT%2==0 and fa==NFFT//2): targets=[(fa,1.0)]
                else: targets=[(fa,0.5),(-fa,0.5)]
        else:
            if dst=='onesided':
                f=fa%NFFT; f=min(f,NFFT-f); targets=[(f,1.0)]
            else: targets=[(fa,1.0)]
        for f,wgt in targets:
            # find entry in B with same freq mod NFFT (onesided: exact)
            for i,fb in enumerate(B):
                if (dst=='onesided' and fb==f) or (dst!='onesided' and (fb-f)%NFFT==0):
                    m[i,j]+=wgt; break
            else: raise RuntimeError((src,dst,NFFT,fa,f))
    return m
viol=collections.Counter(); first={}
for cplx in (False,True):
  for NFFT in range(2,12):
    data=np.arange(NFFT,dtype=float)+1
    if cplx: data=data+1j
    L=NFFT if cplx else NFFT//2+1
    default='twosided' if cplx else 'onesided'
    menu=['twosided','centerdc','default']+([] if cplx else ['onesided'])
    for i in range(L):
        v0=np.zeros(L); v0[i]=1.0
        # BFS depth 3
        import itertools
        for d in range(0,4):
          for hist in itertools.product(menu,repeat=d):
            s=Spectrum(data,NFFT=NFFT); s.psd=v0.copy()
            try:
                for h in hist: s.sides=h
                cur=s.sides
                got=np.asarray(s.psd)
                freq=s.frequencies()
                exp=M(default,cur,NFFT)@v0
                key=None
                if len(got)!=len(freq): key=('len',cplx,NFFT%2,default,cur)
                elif len(got)!=len(exp): key=('lenref',cplx,NFFT%2,default,cur)
                elif not np.allclose(got,exp,atol=1e-12): key=('align',cplx,NFFT%2,default,cur, 'path' if len(hist)>1 else 'direct')
                # frequency axis
                fa=np.array(axis(cur,NFFT))*s.df
                if len(freq)==len(fa) and not np.allclose(freq,fa): viol[('axis',cplx,NFFT%2,cur)]+=1; first.setdefault(('axis',cplx,NFFT%2,cur),(NFFT,hist))
            except Exception as e:
                key=('EXC',type(e).__name__,cplx,NFFT%2,hist[-1] if hist else None)
            if key: viol[key]+=1; first.setdefault(key,(NFFT,i,hist))
for k,v in sorted(viol.items(),key=str): print(k,v,first[k])
