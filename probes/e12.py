import warnings; warnings.filterwarnings("ignore")
import numpy as np, time
from scipy.linalg import eigh_tridiagonal
from spectrum.mtm import dpss
def ref(N,NW,k):
    W=NW/N; n=np.arange(N)
    d=((N-1-2*n)/2.)**2*np.cos(2*np.pi*W); e=n[1:]*(N-n[1:])/2.
    w,v=eigh_tridiagonal(d,e,select='i',select_range=(N-k,N-1))
    v=v[:,::-1]
    for j in range(k):
        if j%2==0:
            if v[:,j].sum()<0: v[:,j]*=-1
        else:
            # first lobe positive: first nonnegligible sample
            if v[np.argmax(np.abs(v[:,j])>1e-12*np.abs(v[:,j]).max()),j]<0: v[:,j]*=-1
    return v
def kernel(N,NW):
    W=NW/N; i=np.arange(N); D=i[:,None]-i[None,:]
    with np.errstate(all='ignore'):
        A=np.where(D==0,2*W,np.sin(2*np.pi*W*D)/(np.pi*np.where(D==0,1,D)))
    return A
worst=dict(orth=0,eigdiff=0,vec=0,resid=0,lam_hi=0,lam_lo=1,noninc=0,par=0)
bad=[]
t=time.time()
for N in list(range(8,140))+[255,256,511,512]:
    A=kernel(N,1)
    for NW in [1,1.5,2,2.5,3,3.5,4,5,6,7,8,1.2,2.3,3.3,5.7]:
        if not NW<N/2: continue
        kmax=int(2*NW)
        k=kmax
        if k>N: continue
        try:
            v,lam=dpss(N,NW,k)
        except Exception as ex:
            bad.append((N,NW,k,type(ex).__name__)); continue
        A=kernel(N,NW)
        G=v.T@v
        o=np.abs(G-np.eye(k)).max()
        q=np.array([v[:,j]@A@v[:,j] for j in range(k)])
        r=ref(N,NW,k)
        vec=np.abs(v-r).max()
        resid=max(np.linalg.norm(A@v[:,j]-lam[j]*v[:,j]) for j in range(k))
        par=max(np.abs(v[:,j]-(-1)**j*v[::-1,j]).max() for j in range(k))
        if o>1e-8 or np.abs(q-lam).max()>1e-8 or vec>1e-6 or resid>1e-6 or lam.max()>1+1e-9 or lam.min()<=0 or np.any(np.diff(lam)>1e-9) or par>1e-8:
            bad.append((N,NW,k,"o%.1e q%.1e vec%.1e res%.1e lam[%.12f,%.3e] par%.1e"%(o,np.abs(q-lam).max(),vec,resid,lam.max(),lam.min(),par)))
        worst['orth']=max(worst['orth'],o); worst['eigdiff']=max(worst['eigdiff'],np.abs(q-lam).max()); worst['vec']=max(worst['vec'],vec); worst['resid']=max(worst['resid'],resid); worst['par']=max(worst['par'],par)
        worst['lam_hi']=max(worst['lam_hi'],lam.max()); worst['lam_lo']=min(worst['lam_lo'],lam.min())
print(worst, "time",round(time.time()-t,1))
print(len(bad)); 
for b in bad[:25]: print(b)
