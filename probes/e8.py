import warnings; warnings.filterwarnings("ignore")
import numpy as np
from spectrum import *
from spectrum.window import window_names, enbw
print(len(window_names))
bad={}
for name in window_names:
    for N in range(1,130):
        try:
            w=create_window(N,name)
        except Exception as e:
            bad.setdefault((name,"ERR "+type(e).__name__),[]).append(N); continue
        w=np.asarray(w)
        if len(w)!=N: bad.setdefault((name,"len"),[]).append(N)
        if not np.all(np.isfinite(w)): bad.setdefault((name,"nonfinite"),[]).append(N); continue
        if np.iscomplexobj(w): bad.setdefault((name,"complex"),[]).append(N)
        if np.abs(w-w[::-1]).max()>1e-12: bad.setdefault((name,"asym %.1e"%np.abs(w-w[::-1]).max()),[]).append(N)
        if w.max()>1+1e-8: bad.setdefault((name,"max>1"),[]).append((N,float(w.max())))
        if N%2==1 and N>=3 and abs(w[N//2]-1)>1e-8: bad.setdefault((name,"centre!=1"),[]).append((N,float(w[N//2])))
        if N>=3:
            try:
                e=enbw(w)
                if not e>=1-1e-12: bad.setdefault((name,"enbw<1"),[]).append((N,float(e)))
            except Exception as ex: bad.setdefault((name,"enbw ERR"),[]).append(N)
for k,v in bad.items(): print(k, len(v), v[:6])
