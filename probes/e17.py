import warnings; warnings.filterwarnings("ignore")
import numpy as np, itertools, collections
from spectrum import *
cnt=collections.Counter(); worst=collections.defaultdict(float)
# C14 exact recovery
for G in (8,12):
  for p in (1,2,3):
    if G==12 and p>2: continue
    for ks in itertools.combinations(range(G),p):
      for amps in itertools.product([1,2-1j],repeat=p):
        for N in (2*p+2,16):
          n=np.arange(N); x=sum(a*np.exp(2j*np.pi*k*n/G) for a,k in zip(amps,ks))
          for nm,f in (("arcovar",lambda: arcovar(x,p)[0]),("modcovar",lambda: modcovar(x,p)[0]),("arcovar_marple",lambda: arcovar_marple(x,p)[0][:p]),("modcovar_marple",lambda: modcovar_marple(x,p)[0][:p])):
            try:
              a=f(); rts=np.roots(np.r_[1,a]); tgt=np.exp(2j*np.pi*np.array(ks)/G)
              err=max(np.abs(rts-t).min() for t in tgt)
              worst[nm]=max(worst[nm],err); cnt[(nm,'ok' if err<1e-6 else 'BAD')]+=1
            except Exception as e: cnt[(nm,'EXC '+type(e).__name__)]+=1
print(dict(cnt)); print(dict(worst))
# C17 all K subsets
cnt=collections.Counter()
def localmax_top(psd,K):
    n=len(psd); idx=[i for i in range(n) if psd[i]>=psd[(i-1)%n] and psd[i]>=psd[(i+1)%n]]
    idx.sort(key=lambda i:-psd[i]); return idx[:K]
NFFT=16
for K in (1,2,3):
  for ks in itertools.combinations(range(NFFT),K):
    for P in range(K+1,7):
      for N in (2*P,2*P+1,24):
        n=np.arange(N); x=sum((1+0.5*i)*np.exp(2j*np.pi*k*n/NFFT+1j*i) for i,k in enumerate(ks))
        for meth in ('music','ev'):
          try:
            with np.errstate(all='ignore'):
              psd,S=eigen(x,P,NSIG=K,NFFT=NFFT,method=meth)
            # eigen output is centerdc-like (with defect): map index->bin
            top=localmax_top(np.nan_to_num(psd,posinf=1e300),K)
            bins=[(i-NFFT//2)%NFFT for i in top]
            ok=all(min(min((b-k)%NFFT,(k-b)%NFFT) for b in bins)<=1 for k in ks)
            nsig=np.sum(S>1e-8*S[0])
            cnt[(meth,K,'peak_ok' if ok else 'peak_BAD')]+=1
            cnt[(meth,K,'rank_ok' if nsig==K else 'rank_BAD%d'%nsig)]+=1
            if not np.all(psd>0): cnt[(meth,'nonpos')]+=1
          except Exception as e: cnt[(meth,K,'EXC '+type(e).__name__+str(e)[:20])]+=1
for k,v in sorted(cnt.items(),key=str): print(k,v)
