import warnings; warnings.filterwarnings("ignore")
import numpy as np
from spectrum import *
from spectrum.window import window_names
def dft(x,NFFT):
    n=np.arange(len(x)); k=np.arange(NFFT)[:,None]
    return (x[None,:]*np.exp(-2j*np.pi*k*n/NFFT)).sum(1)
bad={}
cnt=0
for N in range(1,9):
  for name in window_names:
    w=create_window(N,name)
    for NFFT in sorted({N,N+1,N+2,2*N-1,2*N,2*N+1,4*N+1}):
      if NFFT<N or NFFT<1: continue
      for cplx in (0,1):
        pts=[np.eye(N)[i] for i in range(N)]+[np.eye(N)[i]+np.eye(N)[j] for i in range(N) for j in range(i+1,N)]
        if cplx: pts=[p.astype(complex) for p in pts]+[np.eye(N)[i]+1j*np.eye(N)[j] for i in range(N) for j in range(N) if i!=j]
        for x in pts:
            cnt+=1
            try:
                ref=np.abs(dft(x*w,NFFT))**2/N
                if not cplx: ref=ref[:NFFT//2+1]
                got=speriodogram(x,NFFT=NFFT,detrend=False,scale_by_freq=False,window=name)
                p=Periodogram(x,NFFT=NFFT,window=name); got2=p.psd
                for g,tag in ((got,"func"),(got2,"class")):
                    if np.shape(g)!=ref.shape or not np.allclose(g,ref,rtol=1e-9,atol=1e-12*max(1,ref.max())):
                        bad.setdefault((tag,name,N%2,NFFT%2,cplx,"val" if np.shape(g)==ref.shape else "shape"),[]).append((N,NFFT))
            except Exception as e:
                bad.setdefault(("ERR",type(e).__name__,str(e)[:40],name),[]).append((N,NFFT,cplx))
print(cnt)
for k,v in bad.items(): print(k,len(v),v[:4])
# WK
bad=0;c=0
import itertools
for N in range(1,6):
    for x in itertools.product([-1,0,1,2],repeat=N):
        x=np.array(x,float)
        if not x.any(): continue
        for NFFT in (2*N-1,2*N,2*N+1,4*N):
            if NFFT<1: continue
            for meth in ('xcorr','CORRELATION'):
                c+=1
                try:
                    got=CORRELOGRAMPSD(x,lag=N-1,window='rectangular',norm='biased',NFFT=NFFT,correlation_method=meth)
                    ref=np.abs(dft(x,NFFT))**2/N
                    if not np.allclose(got,ref,atol=1e-9): bad+=1; 
                except Exception as e:
                    bad+=1; print("ERR",N,NFFT,meth,type(e).__name__,e); break
print("WK",c,bad)
