import warnings; warnings.filterwarnings("ignore")
import numpy as np, itertools, collections
import scipy.linalg as sl
from spectrum import *
from spectrum.toeplitz import TOEPLITZ, HERMTOEP
from spectrum.linear_prediction import *
cnt=collections.Counter(); worst=collections.defaultdict(float)
# C10 TOEPLITZ diag dominant real and complex
vals=[-1,0,1,2]
for M in (1,2,3):
    for TC in itertools.product(vals,repeat=M):
        for TR in itertools.product(vals,repeat=M):
            T0=sum(abs(v) for v in TC)+sum(abs(v) for v in TR)+1.0
            T=sl.toeplitz(np.r_[T0,TC],np.r_[T0,TR])
            for zi in range(M+1):
                Z=np.zeros(M+1); Z[zi]=1
                try:
                    X=TOEPLITZ(T0,np.array(TC,float),np.array(TR,float),Z); worst['toep_r']=max(worst['toep_r'],np.abs(T@X-Z).max()); cnt['toep_r ok']+=1
                except Exception as e: cnt['toep_r EXC '+type(e).__name__]+=1
cv=[0,1,1j,-1-1j]
for M in (1,2):
    for TC in itertools.product(cv,repeat=M):
        for TR in itertools.product(cv,repeat=M):
            T0=sum(abs(v) for v in TC)+sum(abs(v) for v in TR)+1.0
            T=sl.toeplitz(np.r_[T0,TC],np.r_[T0,TR]); Z=np.arange(M+1)+1j
            try:
                X=TOEPLITZ(T0,np.array(TC,complex),np.array(TR,complex),Z); worst['toep_c']=max(worst['toep_c'],np.abs(T@X-Z).max()); cnt['toep_c ok']+=1
            except Exception as e: cnt['toep_c EXC '+type(e).__name__+str(e)[:30]]+=1
print(dict(cnt),dict(worst))
# C11 complex all pairs on RC lattice
def stepup(k):
    a=np.array([1.+0j])
    for ki in k: a=np.r_[a,0]+ki*np.conj(np.r_[a,0][::-1])
    return a
cnt=collections.Counter(); worst=collections.defaultdict(float)
clat=[0.5,-0.5j,0.6+0.6j,0,-0.9]
for p in (1,2,3,4):
    for k in itertools.product(clat,repeat=p):
        k=np.array(k,complex); r0=2.5
        kap=np.prod(1/(1-np.abs(k)**2))
        aref=stepup(k); eref=r0*np.prod(1-np.abs(k)**2)
        try:
            a,e=rc2poly(k,r0); worst['rc2poly']=max(worst['rc2poly'],np.abs(a-aref).max()/kap, abs(e-eref))
            r=rc2ac(k,r0)
            k2,r02=ac2rc(r); worst['ac2rc(rc2ac)']=max(worst['ac2rc(rc2ac)'],np.abs(k2-k).max()/kap)
            a2,e2=ac2poly(r); worst['ac2poly(rc2ac)']=max(worst['ac2poly(rc2ac)'],np.abs(a2-aref).max()/kap,abs(e2-eref)/kap)
            r2=poly2ac(aref,eref); worst['poly2ac']=max(worst['poly2ac'],np.abs(r2-r).max()/kap)
            k3=poly2rc(aref,eref); worst['poly2rc']=max(worst['poly2rc'],np.abs(k3-k).max()/kap)
            T=sl.toeplitz(r); worst['normal eq']=max(worst['normal eq'],np.abs(T@aref-np.r_[eref,np.zeros(p)]).max()/kap)
            cnt['ok']+=1
        except Exception as ex: cnt['EXC '+type(ex).__name__+str(ex)[:40]]+=1
print(dict(cnt)); print({k:float(v) for k,v in worst.items()})
# LSF families to 16
cnt=collections.Counter()
for p in range(1,17):
    fams=[]
    for c in (0.3,0.9,0.98):
        fams.append(np.full(p,c)); fams.append(np.array([c*(-1)**i for i in range(p)]))
        for j in range(p):
            v=np.zeros(p); v[j]=c; fams.append(v)
    for k in fams:
        kap=np.prod(1/(1-k**2))
        if kap>1e6: cnt['skip']+=1; continue
        a=stepup(k).real
        try:
            l=np.array(poly2lsf(a)); a2=lsf2poly(l)
            ok=len(l)==p and np.all(np.diff(l)>0) and l[0]>0 and l[-1]<np.pi and np.abs(a2-a).max()<1e-7*kap
            cnt['ok' if ok else 'BAD']+=1
            if not ok: print(p,k,len(l),np.abs(a2-a).max() if len(a2)==len(a) else 'len')
        except Exception as ex: cnt['EXC '+type(ex).__name__]+=1; print(p,k,ex)
print(dict(cnt))
