import warnings; warnings.filterwarnings("ignore")
import numpy as np, itertools, collections
from spectrum import *
def eta(N,cplx=False):
    n=np.arange(N)+1; a=np.sqrt(12.)*((np.sqrt(2)*n*n)%1-0.5); b=np.sqrt(12.)*((np.sqrt(3)*n*n)%1-0.5)
    return (a+1j*b)/np.sqrt(2) if cplx else a
cnt=collections.Counter(); ex={}
for N in (16,17,32):
  for cplx in (False,True):
    x=eta(N,cplx)
    # ma
    for M in range(2,N):
        for Q in range(1,M):
            try:
                b,rho=ma(x,Q,M)
                ok=len(b)==Q and np.abs(np.roots(np.r_[1,b])).max()<1 and rho>0 and np.isfinite(rho)
                cnt[('ma',ok)]+=1
                if not ok: ex.setdefault('ma',(N,cplx,Q,M,len(b),rho))
            except Exception as e: cnt[('ma EXC',type(e).__name__)]+=1; ex.setdefault('maexc',(N,cplx,Q,M,str(e)[:50]))
    for P in range(1,7):
        for Q in range(1,7):
            for lag in range(Q,N):
                if not (lag+2*P-Q<=N and 2*Q<N-P and lag-Q>=P): continue
                try:
                    a,b,rho=arma_estimate(x,P,Q,lag)
                    ok=(len(b)==Q and np.abs(np.roots(np.r_[1,b])).max()<1 and rho>0 and np.isfinite(rho))
                    cnt[('arma', 'P<=4' if P<=4 else 'P>4', 'lenA_ok' if len(a)==P else 'lenA_BAD', ok)]+=1
                    if not ok: ex.setdefault('arma',(N,cplx,P,Q,lag,len(b),rho))
                except Exception as e:
                    cnt[('arma EXC',type(e).__name__, 'P<=4' if P<=4 else 'P>4')]+=1; ex.setdefault(('armaexc',type(e).__name__,P<=4),(N,cplx,P,Q,lag,str(e)[:60]))
for k,v in sorted(cnt.items(),key=str): print(k,v)
print(ex)
