import warnings; warnings.filterwarnings("ignore")
import numpy as np, itertools, collections
from spectrum import *
def ref_burg(x,p):
    x=np.asarray(x,complex); f=x.copy(); b=x.copy(); ks=[]; E=[np.mean(np.abs(x)**2)]
    for i in range(p):
        ff=f[1:]; bb=b[:-1]
        den=np.sum(np.abs(ff)**2+np.abs(bb)**2)
        if den<=1e-9*E[0]*len(x): return ks,E,False
        k=-2*np.sum(ff*np.conj(bb))/den
        f,b=ff+k*bb, bb+np.conj(k)*ff
        ks.append(k); E.append(E[-1]*(1-abs(k)**2))
        if E[-1]<=1e-9*E[0]: return ks,E,False
    return ks,E,True
cnt=collections.Counter(); worst=0
for N in (4,5,6):
    for x in itertools.product([-1,0,1],repeat=N):
        x=np.array(x,float)
        if not x.any(): continue
        for p in range(1,N-1):
            ks,E,ok=ref_burg(x,p)
            if not ok:
                cnt['outdom']+=1
                try: arburg(x,p); cnt['outdom_impl_ok']+=1
                except Exception as e: cnt['outdom_impl_'+type(e).__name__]+=1
                continue
            cnt['in']+=1
            try:
                a,rho,k=arburg(x,p)
                worst=max(worst,np.abs(np.array(ks)-k).max(), abs(rho-E[-1])/E[0])
            except Exception as e: cnt['in_EXC_'+type(e).__name__]+=1
print(cnt,worst)
# C12 big
def eta(N):
    n=np.arange(N)+1; return np.sqrt(12.)*((np.sqrt(2)*n*n)%1-0.5)
for N in (64,200):
    for data,nm in ((np.cos(0.7*np.arange(N)),"tone"),(np.cos(0.7*np.arange(N))+1e-3*eta(N),"tone+eps"),(np.arange(N,dtype=float),"ramp"),(np.ones(N),"const"),(eta(N),"gen")):
        for p in (1,5,30):
            try:
                a,P,k=aryule(data,p); r=np.abs(np.roots(np.r_[1,a])).max()
                print(N,nm,p,"rootmax %.6f"%r,"|k|max %.6f"%np.abs(k).max(),"P %.3e"%P)
            except Exception as e: print(N,nm,p,"EXC",type(e).__name__,e)
