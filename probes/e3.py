import warnings; warnings.filterwarnings("ignore")
import numpy as np
from spectrum import *
rng=np.random.default_rng(2)
def tone(N,NFFT,k,real=False,noise=1e-3):
    n=np.arange(N)
    if real: x=np.cos(2*np.pi*k*n/NFFT+0.3)+noise*rng.standard_normal(N)
    else: x=np.exp(2j*np.pi*k*n/NFFT+0.3j)+noise*(rng.standard_normal(N)+1j*rng.standard_normal(N))
    return x
ests=[("Periodogram",lambda x,NFFT:Periodogram(x,NFFT=NFFT)),
("pcorrelogram",lambda x,NFFT:pcorrelogram(x,lag=8,NFFT=NFFT)),
("pburg",lambda x,NFFT:pburg(x,3,NFFT=NFFT)),
("pyule",lambda x,NFFT:pyule(x,3,NFFT=NFFT)),
("pcovar",lambda x,NFFT:pcovar(x,3,NFFT=NFFT)),
("pmodcovar",lambda x,NFFT:pmodcovar(x,3,NFFT=NFFT)),
("parma",lambda x,NFFT:parma(x,3,2,8,NFFT=NFFT)),
("pminvar",lambda x,NFFT:pminvar(x,4,NFFT=NFFT)),
("pmusic",lambda x,NFFT:pmusic(x,4,NSIG=1,NFFT=NFFT)),
("pev",lambda x,NFFT:pev(x,4,NSIG=1,NFFT=NFFT)),
("MultiTapering",lambda x,NFFT:MultiTapering(x,NW=2,k=3,NFFT=NFFT,method='unity')),
]
for N,NFFT in [(24,24),(24,32),(24,33),(25,25)]:
  for real in (False,True):
    ks = ([3,NFFT-3, 0, NFFT//2] if not real else [3,5])
    for name,mk in ests:
        row=[]
        for k in ks:
            x=tone(N,NFFT,k,real)
            try:
                p=mk(x,NFFT); psd=np.asarray(p.psd); f=np.asarray(p.frequencies())
                ok_len=len(psd)==len(f)
                am=int(np.argmax(psd)); fexp=k*1.0/NFFT
                row.append(f"k={k}:len{'OK' if ok_len else f'BAD{len(psd)}/{len(f)}'} nfft={p.NFFT} peak@{am} f={f[am] if am<len(f) else None:.4f} exp={fexp:.4f}")
            except Exception as e:
                row.append(f"k={k}:ERR {type(e).__name__} {str(e)[:40]}")
        print(N,NFFT,"real" if real else "cplx",name,"|"," | ".join(row))
