import warnings; warnings.filterwarnings("ignore")
import numpy as np, itertools, collections
from spectrum import *
def ref_music(x,P,K,NFFT,meth):
    N=len(x); NP=N-P
    FB=np.array([[x[i-k+P-1] for k in range(P)] for i in range(NP)]+[[np.conj(x[i+k+1]) for k in range(P)] for i in range(NP)])
    U,S,Vh=np.linalg.svd(FB)
    f=np.arange(NFFT)/NFFT
    E=np.exp(2j*np.pi*np.outer(np.arange(P),f))   # e(f)[k]=e^{+j2pi f k}
    den=np.zeros(NFFT)
    for i in range(K,P):
        v=Vh[i].conj()        # right singular vector
        # FB row ~ [x[n],x[n-1],...]: signal vector s(f)=[1,e^{-j..}..]; projection |v^H s|
        proj=np.abs(np.conj(v)@np.exp(2j*np.pi*np.outer(np.arange(P),f)))**2
        den+=proj/(S[i] if meth=='ev' else 1.)
    with np.errstate(all='ignore'): return 1./den,S
def localmax_top(psd,K):
    n=len(psd); idx=[i for i in range(n) if psd[i]>=psd[(i-1)%n] and psd[i]>=psd[(i+1)%n]]
    idx.sort(key=lambda i:-psd[i]); return idx[:K]
cnt=collections.Counter(); ex={}
NFFT=16
for K in (1,2,3):
  for ks in itertools.combinations(range(NFFT),K):
    for P in range(K+1,7):
      for N in (2*P,2*P+1,24):
        n=np.arange(N); x=sum((1+0.5*i)*np.exp(2j*np.pi*k*n/NFFT+1j*i) for i,k in enumerate(ks))
        psd,S=ref_music(x,P,K,NFFT,'music')
        top=localmax_top(np.nan_to_num(psd,posinf=1e300),K)
        ok=all(min(min((b-k)%NFFT,(k-b)%NFFT) for b in top)<=1 for k in ks)
        okx=sorted(top)==sorted(ks)
        cnt[(K,'ok' if ok else 'BAD', 'exact' if okx else 'inexact')]+=1
        if not ok: ex.setdefault(K,(ks,P,N,top,np.round(np.log10(psd),1)))
print(dict(cnt)); print(ex)
