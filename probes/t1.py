import warnings; warnings.filterwarnings("ignore")
import numpy as np, time
from spectrum import *
x=np.array([1.,-1,2,0,1,1,-2,1]); xc=x+1j*x[::-1]
def T(f,n=300):
    t=time.perf_counter()
    for _ in range(n): f()
    return (time.perf_counter()-t)/n*1e6
print("Periodogram obj", T(lambda:Periodogram(x,NFFT=8).psd))
print("speriodogram", T(lambda:speriodogram(x,NFFT=8,detrend=False,scale_by_freq=False)))
print("create_window hann 8", T(lambda:create_window(8,'hann')))
print("Window taylor 64", T(lambda:Window(64,'taylor')))
print("chebwin 512", T(lambda:create_window(512,'chebwin')))
print("arburg p3", T(lambda:arburg(xc,3)))
print("aryule p3", T(lambda:aryule(xc,3)))
print("arcovar p3", T(lambda:arcovar(xc,3)))
print("arcovar_marple p3", T(lambda:arcovar_marple(xc,3)))
print("modcovar p2", T(lambda:modcovar(xc,2)))
print("CORRELATION", T(lambda:CORRELATION(xc,maxlags=7)))
print("xcorr", T(lambda:xcorr(xc,maxlags=7)))
print("minvar", T(lambda:minvar(xc,3,NFFT=8)))
print("eigen", T(lambda:eigen(xc,3,NSIG=1,NFFT=8)))
print("pburg obj", T(lambda:pburg(xc,3,NFFT=8).psd))
x16=np.arange(16.)%5-2
print("arma_estimate", T(lambda:arma_estimate(x16,2,2,6),50))
print("ma", T(lambda:ma(x16,2,5),50))
print("dpss 16", T(lambda:dpss(16,2,3),50))
print("dpss 512", T(lambda:dpss(512,4,8),5))
print("dpss 4096", T(lambda:dpss(4096,4,8),1))
print("pmtm adapt 16", T(lambda:pmtm(x16,NW=2,k=3,NFFT=16,method='adapt'),50))
print("LEVINSON 8", T(lambda:LEVINSON(np.array([4.,2,1,.5,.2,.1,.05,.01,.001]))))
p=pburg(xc,3,NFFT=8); p.psd
print("setter+psd", T(lambda:(setattr(p,'NFFT',16),p.psd,setattr(p,'NFFT',8),p.psd)))
