import warnings; warnings.filterwarnings("ignore")
import numpy as np, math
from spectrum import *
def eta(N,cplx):
    n=np.arange(N)+1
    a=(np.sqrt(2)*n*n)%1-0.5; b=(np.sqrt(3)*n*n)%1-0.5
    s=np.sqrt(12.)
    return s*(a+1j*b)/np.sqrt(2) if cplx else s*a
ests=[("Periodogram",lambda x,NFFT:Periodogram(x,NFFT=NFFT),2.0,0),
("pcorrelogram",lambda x,NFFT:pcorrelogram(x,lag=len(x)//2-1,NFFT=NFFT),None,0),
("pburg3",lambda x,NFFT:pburg(x,3,NFFT=NFFT),1.0,1),
("pburg6",lambda x,NFFT:pburg(x,6,NFFT=NFFT),1.0,1),
("pyule3",lambda x,NFFT:pyule(x,3,NFFT=NFFT),1.0,1),
("pyule6",lambda x,NFFT:pyule(x,6,NFFT=NFFT),1.0,1),
("pcovar3",lambda x,NFFT:pcovar(x,3,NFFT=NFFT),1.0,0),
("pmodcovar3",lambda x,NFFT:pmodcovar(x,3,NFFT=NFFT),1.0,0),
("parma22",lambda x,NFFT:parma(x,2,2,8,NFFT=NFFT),1.0,1),
("parma53",lambda x,NFFT:parma(x,5,3,12,NFFT=NFFT),1.0,1),
("pminvar4",lambda x,NFFT:pminvar(x,4,NFFT=NFFT),1.0,1),
("pminvar7",lambda x,NFFT:pminvar(x,7,NFFT=NFFT),1.0,1),
("pev5",lambda x,NFFT:pev(x,5,NSIG=2,NFFT=NFFT),1.0,0),
("mtm",lambda x,NFFT:MultiTapering(x,NW=2,k=3,NFFT=NFFT,method='unity'),2.0,0),
("mtm_adapt",lambda x,NFFT:MultiTapering(x,NW=2.5,k=4,NFFT=NFFT,method='adapt'),2.5,0),
]
eps=1e-3
worstc={}; worstr={}
for N in (16,17,24,25):
  for NFFT in (N,N+1,2*N,2*N+1,3*N):
    for name,mk,h,tol in ests:
      # complex: every bin
      for k in range(NFFT):
        for ph in (0,0.3,np.pi/2):
          x=np.exp(2j*np.pi*k*np.arange(N)/NFFT+1j*ph)+eps*eta(N,True)
          try:
            p=mk(x,NFFT); psd=np.asarray(p.psd); am=int(np.argmax(psd)); d=min((am-k)%NFFT,(k-am)%NFFT)
          except Exception as e: d=-1
          if name in("pev5",) : continue
          key=name; worstc[key]=max(worstc.get(key,0),d) if d>=0 else 999
      # real
      for k in range(NFFT//2+1):
        f=k/NFFT
        if f<4./N or f>0.5-4./N: continue
        for ph in (0,0.3,np.pi/2):
          x=np.cos(2*np.pi*k*np.arange(N)/NFFT+ph)+eps*eta(N,False)
          try:
            p=mk(x,NFFT); psd=np.asarray(p.psd); am=int(np.argmax(psd)); d=abs(am-k)*N/NFFT  # in units of 1/N
          except Exception as e: d=999
          worstr[name]=max(worstr.get(name,0),d)
print("complex worst bin distance",worstc)
print("real worst distance in units of fs/N",{k:round(v,2) for k,v in worstr.items()})
