import warnings; warnings.filterwarnings("ignore")
import numpy as np, scipy.linalg as sl
from spectrum import *
from spectrum.linear_prediction import *
from spectrum.levinson import levup
rng=np.random.default_rng(5)
def stepup(k):
    a=np.array([1.+0j])
    for ki in k:
        a=np.r_[a,0]+ki*np.conj(np.r_[a,0][::-1])
    return a
worst={}
def upd(key,v): worst[key]=max(worst.get(key,0),float(v))
for trial in range(300):
    N=int(rng.integers(6,40)); cplx=bool(rng.integers(0,2))
    x=rng.standard_normal(N)+(1j*rng.standard_normal(N) if cplx else 0)
    if rng.random()<0.3: x=x+3*np.cos(0.7*np.arange(N))
    p=int(rng.integers(1,min(N-2,10)+1))
    # Burg
    a,rho,k=arburg(x,p)
    upd("burg |k|max",np.abs(k).max())
    upd("burg stepup",np.abs(stepup(k)[1:]-a).max())
    upd("burg rho", abs(rho-np.mean(np.abs(x)**2)*np.prod(1-np.abs(k)**2))/rho)
    if p>1:
        a2,rho2,k2=arburg(x,p-1); upd("burg nest",np.abs(k2-k[:-1]).max())
    # YW
    a,P,k=aryule(x,p)
    upd("yw rootmax",np.abs(np.roots(np.r_[1,a])).max())
    r=CORRELATION(x,maxlags=p,norm='biased')
    rm=poly2ac(np.r_[1,a],P); upd("yw acmatch",np.abs(rm-r).max()/abs(r[0]))
    X=corrmtx(np.asarray(x,dtype=complex if cplx else float),p,'autocorrelation'); als=np.linalg.lstsq(-X[:,1:],X[:,0],rcond=None)[0]; upd("yw lstsq",np.abs(als-a).max())
    if not cplx:
        al,el=lpc(x.copy(),p); upd("yw lpc",np.abs(al-a).max())
    # covar
    if N-p>=p+1:
        a,e=arcovar(x,p); am=arcovar_marple(x,p); upd("covar marple a",np.abs(am[0][:p]-a).max()); upd("covar marple e",abs(am[1]-e/(N-p))/abs(e/(N-p)+1e-300))
        a,e=modcovar(x,p); am=modcovar_marple(x,p); upd("modcovar marple a",np.abs(am[0][:p]-a).max()); upd("modcovar marple e",abs(am[1]-e/(2*(N-p)))/abs(e/(2*(N-p))))
for key in worst: print(key, f"{worst[key]:.3e}")
# C11 LSF roundtrip by order
print("== LSF / rc roundtrip")
for p in range(1,17):
    w=0
    for t in range(50):
        k=rng.uniform(-0.9,0.9,p)
        a,e=rc2poly(k,1.0)
        try:
            lsf=poly2lsf(a.real); a2=lsf2poly(lsf); w=max(w,np.abs(a2-a).max()); 
            inc=np.all(np.diff(lsf)>0) and lsf[0]>0 and lsf[-1]<np.pi and len(lsf)==p
            if not inc: w=99
        except Exception as ex: w=f"ERR {type(ex).__name__} {ex}"; break
    kk=poly2rc(a,e); r=rc2ac(k,1.0); 
    print(p,"lsf",w,"poly2rc",np.abs(kk-k).max(), "ac2rc(rc2ac)",np.abs(ac2rc(r)[0]-k).max())
