import warnings; warnings.filterwarnings("ignore")
import numpy as np, itertools, collections
from spectrum import *
from spectrum.mtm import pmtm, dpss, MultiTapering
cnt=collections.Counter(); worst=collections.defaultdict(float)
# C09 CORRELATION / xcorr sweeps
def refcorr(x,y,k,norm):
    N=max(len(x),len(y)); xx=np.zeros(N,complex); yy=np.zeros(N,complex); xx[:len(x)]=x; yy[:len(y)]=y
    s=sum(xx[n+k]*np.conj(yy[n]) for n in range(N-k))
    if norm=='biased': return s/N
    if norm=='unbiased': return s/(N-k)
    if norm is None: return s
    if norm=='coeff': return s/(N*np.sqrt(np.mean(abs(xx)**2)*np.mean(abs(yy)**2)))
vals=[0,1,-1,1j,1+1j]
for Nx in (1,2,3):
  for Ny in (1,2,3):
    for x in itertools.product(vals,repeat=Nx):
      for y in itertools.product(vals,repeat=Ny):
        x=np.array(x);y=np.array(y)
        if not x.any() or not y.any(): continue
        N=max(Nx,Ny)
        for L in range(N):
          for norm in ('biased','unbiased',None):
            try:
              r=CORRELATION(x,y,maxlags=L,norm=norm); ref=np.array([refcorr(x,y,k,norm) for k in range(L+1)])
              ok=np.allclose(r,ref)
              cnt[('CORR',Nx<Ny,Nx>Ny,ok)]+=1
            except Exception as e: cnt[('CORR EXC',type(e).__name__,Nx,Ny)]+=1
            if Nx==Ny:
              try:
                c,l=xcorr(x,y,maxlags=L,norm=norm)
                ref=np.array([np.conj(refcorr(y,x,-k,norm)) if k<0 else refcorr(x,y,k,norm) for k in range(-L,L+1)])
                cnt[('xcorr',np.allclose(c,ref) and list(l)==list(range(-L,L+1)))]+=1
              except Exception as e: cnt[('xcorr EXC',type(e).__name__+str(e)[:30],L)]+=1
        if Nx==Ny and (x==y).all():
            for L in range(N):
                r=CORRELATION(x,maxlags=L,norm='coeff'); ref=np.array([refcorr(x,x,k,'coeff') for k in range(L+1)]); cnt[('coeff',np.allclose(r,ref))]+=1
                c,l=xcorr(x,maxlags=L,norm='coeff'); cnt[('xcoeff',np.allclose(c[L:],ref))]+=1
for k,v in sorted(cnt.items(),key=str): print(k,v)
# C13 criteria == arburg(x,q)
def eta(N):
    n=np.arange(N)+1; return np.sqrt(12.)*((np.sqrt(2)*n*n)%1-0.5)
cnt=collections.Counter()
for N in (16,33,64):
    for base in (eta(N), eta(N)+2*np.cos(0.9*np.arange(N)), eta(N)+1j*eta(N)[::-1]):
        for p in range(1,9):
            for crit in ['AIC','AICc','KIC','FPE','AKICc','MDL']:
                a,rho,k=arburg(base,p,crit); q=len(a)
                if q==0: cnt['q0']+=1; continue
                a2,rho2,k2=arburg(base,q)
                cnt[('crit', np.array_equal(a,a2) and rho==rho2 and np.array_equal(k,k2))]+=1
print(dict(cnt))
# C19 class formula real adapt/eigen/unity
for meth in ('unity','eigen','adapt'):
    for x in (eta(32), eta(33)):
        for NFFT in (len(x), 64, 65):
            Sk,w,lam=pmtm(x,NW=2.5,k=4,NFFT=NFFT,method=meth)
            p=MultiTapering(x,NW=2.5,k=4,NFFT=NFFT,method=meth); ps=p.psd
            S2=np.abs(Sk)**2
            full=np.mean(S2*w,axis=0) if meth!='adapt' else np.mean(S2.T*w,axis=1)
            L=NFFT//2+1 if NFFT%2==0 else (NFFT+1)//2
            print(meth,len(x),NFFT,np.allclose(ps,2*full[:L]), ps.min()>=0)
