import warnings; warnings.filterwarnings("ignore")
import numpy as np
from spectrum import *
rng=np.random.default_rng(4)
N=24
xr=rng.standard_normal(N); xc=xr+1j*rng.standard_normal(N)
ests=[("Periodogram",lambda x,NFFT,**k:Periodogram(x,NFFT=NFFT,**k)),
("pcorrelogram",lambda x,NFFT,**k:pcorrelogram(x,lag=6,NFFT=NFFT,scale_by_freq=False,**k)),
("pburg",lambda x,NFFT,**k:pburg(x,3,NFFT=NFFT,**k)),
("pyule",lambda x,NFFT,**k:pyule(x,3,NFFT=NFFT,scale_by_freq=False,**k)),
("pcovar",lambda x,NFFT,**k:pcovar(x,3,NFFT=NFFT,**k)),
("pmodcovar",lambda x,NFFT,**k:pmodcovar(x,3,NFFT=NFFT,**k)),
("parma",lambda x,NFFT,**k:parma(x,3,2,8,NFFT=NFFT,**k)),
("parma55",lambda x,NFFT,**k:parma(x,5,5,10,NFFT=NFFT,**k)),
("pma",lambda x,NFFT,**k:pma(x,3,8,NFFT=NFFT,**k)),
("pminvar",lambda x,NFFT,**k:pminvar(x,4,NFFT=NFFT,**k)),
("pmusic",lambda x,NFFT,**k:pmusic(x,5,NSIG=2,NFFT=NFFT,**k)),
("pev",lambda x,NFFT,**k:pev(x,5,NSIG=2,NFFT=NFFT,**k)),
("mtm_unity",lambda x,NFFT,**k:MultiTapering(x,NW=2,k=3,NFFT=NFFT,method='unity',scale_by_freq=False,**k)),
("mtm_adapt",lambda x,NFFT,**k:MultiTapering(x,NW=2,k=3,NFFT=NFFT,method='adapt',scale_by_freq=False,**k)),
]
def P(p): return np.asarray(p.psd).copy()
def rel(a,b): 
    a=np.asarray(a);b=np.asarray(b)
    if a.shape!=b.shape: return f"shape{a.shape}{b.shape}"
    return f"{np.abs(a-b).max()/max(np.abs(a).max(),1e-300):.1e}"
print("name | C03 scale c=3 (cplx c=2+1j) real,cplx | C04 shift m=5 | C04 conj mirror | C04 conj-reverse | C04 real=2*half | C05 NFFT 32 vs 64 real,cplx | C08 sampling 1 vs 4 real")
for name,mk in ests:
    out=[name]
    try:
        a=P(mk(xr,32)); b=P(mk(3*xr,32)); out.append(rel(9*a,b))
        a=P(mk(xc,32)); b=P(mk((2+1j)*xc,32)); out.append(rel(5*a,b))
    except Exception as e: out.append("ERR "+type(e).__name__+str(e)[:30])
    try:
        NF=32; m=5; a=P(mk(xc,NF)); b=P(mk(xc*np.exp(2j*np.pi*m*np.arange(N)/NF),NF)); out.append(rel(np.roll(a,m),b))
        c=P(mk(np.conj(xc),NF)); out.append(rel(np.roll(a[::-1],1),c))
        d=P(mk(np.conj(xc[::-1]),NF)); out.append(rel(a,d))
        r=P(mk(xr,NF)); t=P(mk(xr.astype(complex),NF)); out.append(rel(r,2*t[:NF//2+1]))
    except Exception as e: out.append("ERR "+type(e).__name__+str(e)[:30])
    try:
        a=P(mk(xr,32)); b=P(mk(xr,64)); out.append(rel(a,b[::2]))
        a=P(mk(xc,32)); b=P(mk(xc,64)); out.append(rel(a,b[::2]))
        a=P(mk(xc,33)); b=P(mk(xc,66)); out.append("odd:"+rel(a,b[::2]))
    except Exception as e: out.append("ERR "+type(e).__name__+str(e)[:30])
    try:
        a=P(mk(xr,32,sampling=1.)); b=P(mk(xr,32,sampling=4.)); out.append(rel(a,b)+"/"+rel(a,4*b)+"/"+rel(4*a,b))
    except Exception as e: out.append("ERR "+type(e).__name__+str(e)[:30])
    print(" | ".join(out))
