import warnings; warnings.filterwarnings("ignore")
import numpy as np, scipy.linalg as sl
from spectrum import *
from spectrum.mtm import dpss, pmtm, MultiTapering
rng=np.random.default_rng(3)
N=32
x=rng.standard_normal(N); xc=x+1j*rng.standard_normal(N)
print("== mtm adapt complex")
for meth in ("unity","eigen","adapt"):
    for nm,d in (("real",x),("cplx",xc)):
        try:
            Sk,w,e=pmtm(d,NW=2.5,k=4,NFFT=64,method=meth)
            print(meth,nm,"Sk",Sk.shape,"w",np.asarray(w).shape,np.asarray(w).dtype,"e",np.round(e,4))
            p=MultiTapering(d,NW=2.5,k=4,NFFT=64,method=meth); ps=p.psd; print("   class psd dtype",ps.dtype,"min",np.min(ps.real), "imagmax", np.abs(np.imag(ps)).max())
        except Exception as ex: print(meth,nm,"ERR",type(ex).__name__,ex)
print("== dpss")
for (n,nw,k) in [(8,1,2),(16,2,4),(33,2.5,5),(64,4,8),(64,3.3,None)]:
    t,e=dpss(n,nw,k)
    G=t.T@t
    print(n,nw,k,"shape",t.shape,"orth err",np.abs(G-np.eye(G.shape[0])).max(),"eig",np.round(e,6))
print("== minvar vs definition")
from spectrum.linear_prediction import poly2ac
for d,nm in ((x,"real"),(xc,"cplx")):
    m=4; NFFT=16
    psd,A,k=minvar(d,m,NFFT=NFFT,sampling=2.)
    a,P,kk=arburg(d,m-1)
    r=poly2ac(np.r_[1,a],P)
    R=sl.toeplitz(r)  # T[i,j]=r[i-j]
    Ri=np.linalg.inv(R)
    f=np.arange(NFFT)/NFFT
    for sign in (+1,-1):
        E=np.exp(sign*2j*np.pi*np.outer(np.arange(m),f))
        q=np.real(np.einsum('if,ij,jf->f',E.conj(),Ri,E))
        print(nm,"sign",sign,"maxrel",np.abs(psd-2./q).max()/np.abs(psd).max())
print("== eigen singular values & FB")
P=4
X=xc
NP=N-P
FB=np.array([[X[i-k+P-1] for k in range(P)] for i in range(NP)]+[[np.conj(X[i+k+1]) for k in range(P)] for i in range(NP)])
psd,S=eigen(xc,P,NSIG=2,NFFT=32)
print("S match", np.allclose(S,np.linalg.svd(FB,compute_uv=False)))
from spectrum import corrmtx
C=corrmtx(xc,P-1,'modified'); print("corrmtx modified shape",C.shape,"FB",FB.shape, "svd corrmtx", np.round(np.linalg.svd(C,compute_uv=False),4), np.round(S,4))
