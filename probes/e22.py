import warnings; warnings.filterwarnings("ignore")
import numpy as np, itertools, collections
import scipy.linalg as sl
from spectrum import *
def eta(N,cplx=False):
    n=np.arange(N)+1; a=np.sqrt(12.)*((np.sqrt(2)*n*n)%1-0.5); b=np.sqrt(12.)*((np.sqrt(3)*n*n)%1-0.5)
    return (a+1j*b)/np.sqrt(2) if cplx else a
def ref_burg(x,p):
    x=np.asarray(x,complex); f=x.copy(); b=x.copy(); ks=[]; E=np.mean(np.abs(x)**2)
    for i in range(p):
        ff=f[1:]; bb=b[:-1]
        k=-2*np.sum(ff*np.conj(bb))/np.sum(np.abs(ff)**2+np.abs(bb)**2)
        f,b=ff+k*bb, bb+np.conj(k)*ff; ks.append(k); E*=(1-abs(k)**2)
    return np.array(ks),E
def stepup(k):
    a=np.array([1.+0j])
    for ki in k: a=np.r_[a,0]+ki*np.conj(np.r_[a,0][::-1])
    return a
def model_acf(k,E0):
    # r[0..p] from reflection coeffs and zero-lag power: r[m] = -sum_{j=1}^{m} a_m[j] r[m-j] ... use levinson inverse
    r=[E0]; a=np.array([1.+0j]); E=E0
    for m,km in enumerate(k,1):
        rm=-km*E-sum(a[j]*r[m-j] for j in range(1,m))
        r.append(rm); a=np.r_[a,0]+km*np.conj(np.r_[a,0][::-1]); E*=(1-abs(km)**2)
    return np.array(r)
worst=0; cnt=collections.Counter()
for N in (8,9,16,33):
  for cplx in (False,True):
    x=eta(N,cplx)
    for m in range(2,min(N//2,16)+1):
      k,E=ref_burg(x,m-1); r=model_acf(k,np.mean(np.abs(x)**2)); R=sl.toeplitz(r); Ri=np.linalg.inv(R)
      for NFFT in (2*m,2*m+1,4*m,4*m+3,64):
        for fs in (1.,4.,0.02):
          psd,A,kk=minvar(x,m,sampling=fs,NFFT=NFFT)
          f=np.arange(NFFT)/NFFT; Em=np.exp(2j*np.pi*np.outer(np.arange(m),f))
          q=np.real(np.einsum('if,ij,jf->f',Em.conj(),Ri,Em))
          err=np.abs(psd-fs/q).max()/np.abs(psd).max(); worst=max(worst,err)
          cnt['pos' if psd.min()>0 else 'NONPOS']+=1
          if not np.allclose(A,stepup(k)) or not np.allclose(kk,k): cnt['ARBAD']+=1
          # class
          p=pminvar(x,m,NFFT=NFFT,sampling=fs); ps=np.asarray(p.psd)
          exp= psd if cplx else 2*psd[:NFFT//2+1] if NFFT%2==0 else 2*psd[:(NFFT+1)//2]
          if not np.allclose(ps,exp): cnt['classBAD']+=1
print(worst,dict(cnt))
# C02: NFFT None / nextpow2 all classes len & axis
cnt=collections.Counter()
mk={"Periodogram":lambda x,**k:Periodogram(x,**k),"pcorrelogram":lambda x,**k:pcorrelogram(x,lag=4,**k),"pburg":lambda x,**k:pburg(x,3,**k),"pyule":lambda x,**k:pyule(x,3,**k),
"pcovar":lambda x,**k:pcovar(x,3,**k),"pmodcovar":lambda x,**k:pmodcovar(x,3,**k),"parma":lambda x,**k:parma(x,2,2,6,**k),"pma":lambda x,**k:pma(x,2,5,**k),"pminvar":lambda x,**k:pminvar(x,3,**k),
"pmusic":lambda x,**k:pmusic(x,4,NSIG=2,**k),"pev":lambda x,**k:pev(x,4,NSIG=2,**k),"mtm":lambda x,**k:MultiTapering(x,NW=2,k=3,**k)}
for name,f in mk.items():
  for N in (12,13,16):
    for cplx in (False,True):
      for NFFT in (None,'nextpow2'):
        for fs in (1.,4.):
          try:
            p=f(eta(N,cplx),NFFT=NFFT,sampling=fs); ps=np.asarray(p.psd); fr=np.asarray(p.frequencies())
            want=N if NFFT is None else int(2**np.ceil(np.log2(N)))
            L=want if cplx else (want//2+1 if want%2==0 else (want+1)//2)
            ok=len(ps)==L and len(fr)==L and np.allclose(fr,np.arange(L)*fs/want) and np.isrealobj(ps) and np.all(np.isfinite(ps))
            cnt[(name,ok)]+=1
            if not ok: print(name,N,cplx,NFFT,fs,len(ps),len(fr),L,p.NFFT)
          except Exception as e: cnt[(name,'EXC '+type(e).__name__)]+=1; print(name,N,cplx,NFFT,type(e).__name__,e)
print(dict(cnt))
