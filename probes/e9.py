import warnings; warnings.filterwarnings("ignore")
import numpy as np
from spectrum import *
from spectrum.mtm import pmtm, dpss
rng=np.random.default_rng(9)
print("== C15 arma P=Q modified YW LS")
for cplx in (False,True):
  for P in (2,4,5,6):
    N=48; lag=14
    x=rng.standard_normal(N)+(1j*rng.standard_normal(N) if cplx else 0)
    a,b,rho=arma_estimate(x,P,P,lag)
    # reference unbiased acf
    r=np.array([np.sum(x[k:]*np.conj(x[:N-k]))/(N-k) for k in range(lag+1)])
    rr=lambda m: r[m] if m>=0 else np.conj(r[-m])
    rows=[];rhs=[]
    for m in range(P+1,lag+1):
        rows.append([rr(m-j) for j in range(1,P+1)]); rhs.append(-rr(m))
    aref=np.linalg.lstsq(np.array(rows),np.array(rhs),rcond=None)[0]
    print(cplx,P,"len a",len(a),"LS diff",np.abs(np.asarray(a)[:P]-aref).max(),"ma roots max",np.abs(np.roots(np.r_[1,b])).max(),"rho",rho)
print("== C19 adapt fixed point")
x=rng.standard_normal(64)
Sk,w,lam=pmtm(x,NW=3,k=5,NFFT=128,method='adapt')
S2=np.abs(Sk)**2  # (k,NFFT)
sig2=np.dot(x,x)/64; a=sig2*(1-lam)
# invert S from weights per taper
b=np.sqrt(w/lam)            # (NFFT,k)
S_from=a*b/(1-lam*b)        # should be same across k
print("S consistency across tapers", np.nanmax(np.abs(S_from-S_from[:,[0]])/np.abs(S_from[:,[0]])))
S=S_from[:,0]
S1=np.sum(w*S2.T,axis=1)/np.sum(w,axis=1)
print("fixed-point residual mean", np.mean(np.abs(S1-S)), "tol", 0.0005*sig2/128, "w range", w.min(), (w*lam).max())
tap,e=dpss(64,3,5); Sk2,w2,l2=pmtm(x,e=e,v=tap,NFFT=128,method='adapt'); print("precomputed same", np.abs(Sk2-Sk).max(), np.abs(w2-w).max())
print("== C17 resolution")
N=32;P=6;NFFT=64
for ks in ([5,20],[3,9,40]):
    n=np.arange(N); x=sum((1+0.5*i)*np.exp(2j*np.pi*k*n/NFFT+1j*i) for i,k in enumerate(ks))
    for meth in ('music','ev'):
        psd,S=eigen(x,P,NSIG=len(ks),NFFT=NFFT,method=meth)
        # interpret as centerdc
        idx=np.argsort(psd)[-len(ks):]
        print(meth,ks,"top idx(centerdc pos)",sorted(idx),"-> bins",sorted(((i-NFFT//2)%NFFT) for i in idx),"S",np.round(S,6), "min",psd.min())
