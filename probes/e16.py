import warnings; warnings.filterwarnings("ignore")
import numpy as np, itertools, collections
from spectrum import *
from spectrum.toeplitz import TOEPLITZ, HERMTOEP
cnt=collections.Counter()
# (B) corrmtx block definitions
def refmtx(x,m,method):
    N=len(x); xp=lambda i: x[i] if 0<=i<N else 0
    rows_all=[[xp(n-j) for j in range(m+1)] for n in range(0,N+m)]   # n = 0..N+m-1
    R=np.array(rows_all)
    if method=='autocorrelation': return R
    if method=='prewindowed': return R[:N]
    if method=='postwindowed': return R[m:]
    if method=='covariance': return R[m:N]
    if method=='modified':
        T=R[m:N]; return np.vstack([T, np.conj(T[:,::-1])])
for N in range(2,6):
    for x in itertools.product([0,1,-1,1j,1+1j],repeat=N):
        x=np.array(x,dtype=complex)
        for m in range(1,N):
            for meth in ['autocorrelation','prewindowed','postwindowed','covariance','modified']:
                try:
                    C=corrmtx(x,m,meth); Rf=refmtx(x,m,meth)
                    ok=C.shape==Rf.shape and np.allclose(C,Rf)
                except Exception as e: ok=False; cnt[('EXC',meth,type(e).__name__)]+=1
                cnt[(meth,ok)]+=1
    for x in itertools.product([0.,1,-1],repeat=N):
        x=np.array(x)
        for m in range(1,N):
            for meth in ['autocorrelation','prewindowed','postwindowed','covariance','modified']:
                try:
                    C=corrmtx(x,m,meth); Rf=refmtx(x,m,meth); ok=C.shape==Rf.shape and np.allclose(C,Rf)
                except Exception as e: ok=False; cnt[('EXCr',meth,type(e).__name__)]+=1
                cnt[('real',meth,ok)]+=1
print({k:v for k,v in cnt.items()})
# (C) indefinite raising
cnt=collections.Counter()
import scipy.linalg as sl
vals=[-1.5,-1,-.5,0,.5,1,1.5]
for p in range(1,5):
    for r in itertools.product(vals,repeat=p):
        rr=np.r_[1.,r]; ev=np.linalg.eigvalsh(sl.toeplitz(rr)).min()
        cls='pd' if ev>1e-6 else ('indef' if ev<-1e-3 else 'border')
        try: LEVINSON(rr); res='ok'
        except ValueError: res='raise'
        except Exception as e: res='other '+type(e).__name__
        cnt[(cls,res)]+=1
        if cls=='indef':
            try: LEVINSON(rr,allow_singularity=True); cnt[('indef_allow','ok')]+=1
            except Exception as e: cnt[('indef_allow',type(e).__name__)]+=1
print(dict(cnt))
