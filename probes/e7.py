import warnings; warnings.filterwarnings("ignore")
import numpy as np
from spectrum import *
rng=np.random.default_rng(7)
x=rng.standard_normal(32)+2*np.cos(0.9*np.arange(32))
for crit in ['AIC','AICc','KIC','FPE','AKICc','MDL']:
    out=[]
    for c in (1e-3,0.1,1,10,1e3):
        try:
            a,rho,k=arburg(c*x,8,crit); out.append(len(a))
        except Exception as e: out.append(type(e).__name__)
    print(crit,out)
# eigen criteria scaling
xc=x+1j*rng.standard_normal(32)
for crit in ('aic','mdl'):
    print(crit,[len(eigen(c*xc,8,criteria=crit,NFFT=32)[1]) for c in (1e-3,1,1e3)])
from spectrum.eigenfre import _get_signal_space
for c in (1e-3,1,1e3):
    S=np.linalg.svd(np.array([[ (c*xc)[i-k+7] for k in range(8)] for i in range(24)]),compute_uv=False)
    print("NSIG aic",_get_signal_space(S,48,criteria='aic'),"mdl",_get_signal_space(S,48,criteria='mdl'),"thr",_get_signal_space(S,48,threshold=2.))
