import warnings; warnings.filterwarnings("ignore")
import numpy as np, itertools, time, collections, hashlib
from spectrum import *
dA=np.array([1.,-1,2,0,1,1,-2,1]); dB=np.array([2.,1,0,-1,1,3,-2,1,1])
DATA={'dA':dA,'dB':dB}
EV=[('data','dA'),('data','dB'),('NFFT',None),('NFFT',16),('NFFT',17),('NFFT','nextpow2'),('sampling',1.0),('sampling',4.0),
    ('window','hann'),('window','rectangular'),('detrend',None),('detrend','mean'),('scale_by_freq',False),('scale_by_freq',True),
    ('sides','onesided'),('sides','twosided'),('sides','centerdc'),('sides','default'),('call',None),('read',None)]
def apply(p,ev):
    k,v=ev
    if k=='call': p()
    elif k=='read': p.psd
    elif k=='data': p.data=DATA[v]
    else: setattr(p,k,v)
def build(hist):
    p=Periodogram(dA); 
    for ev in hist: apply(p,ev)
    return p
def canon(p):
    d=[]
    for k,v in sorted(vars(p).items()):
        if isinstance(v,np.ndarray): v=('arr',v.shape,hashlib.md5(np.round(v,9).tobytes()).hexdigest())
        elif hasattr(v,'__dict__') and not isinstance(v,type): v=tuple(sorted((a,repr(b)) for a,b in vars(v).items()))
        else: v=repr(v)
        d.append((k,v))
    return tuple(d)
def fresh_of(p):
    q=Periodogram(p.data, sampling=p.sampling, window=p.window, NFFT=p.NFFT, scale_by_freq=p.scale_by_freq, detrend=p.detrend)
    return q
def check(hist):
    p=build(hist)
    v=np.array(p.psd,copy=True); s=p.sides
    q=fresh_of(p); q.psd; q.sides=s; w=np.asarray(q.psd)
    errs=[]
    if v.shape!=w.shape or not np.allclose(v,w,rtol=1e-12,atol=0): errs.append('stale')
    if abs(p.df-p.sampling/p.NFFT)>1e-15*abs(p.df): errs.append('df')
    if len(p.frequencies())!=len(v): errs.append('len')
    return errs
t=time.time()
seen={canon(build([]))}; frontier=collections.deque([[]]); viol=collections.Counter(); first={}
ntrans=0; depthmax=3
while frontier:
    h=frontier.popleft()
    if len(h)>=depthmax: continue
    for ev in EV:
        h2=h+[ev]; ntrans+=1
        try:
            p=build(h2)
        except Exception as e:
            viol['EXC '+type(e).__name__]+=1; first.setdefault('EXC '+type(e).__name__,h2); continue
        try: errs=check(h2)
        except Exception as e: errs=['EXC-check '+type(e).__name__+str(e)[:30]]
        for e in errs:
            viol[e]+=1; first.setdefault(e,h2)
        k=canon(p)
        if k not in seen: seen.add(k); frontier.append(h2)
print("states",len(seen),"transitions",ntrans,"time",round(time.time()-t,1))
for k,v in viol.items(): print(k,v,first[k])
