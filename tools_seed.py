#!/venv/bin/python
"""Validate seeded changes produced by independent sub-agents and record them under /verif/seeded/.

usage: tools_seed.py <property id> <worktree> [--keep]
For every <worktree>/out/patchK.diff: apply it on the clean scratch worktree, run the repository test-suite (must still pass),
run the demo (must fail with the change, pass without), run ./check <id> quick (and thorough if quick misses) against the
scratch tree (VERIF_REPO=<worktree>, evidence redirected to a temp dir), undo the change.  Nothing is ever applied to /repo."""
import json, os, shutil, subprocess, sys, tempfile, time

HERE = os.path.dirname(os.path.abspath(__file__))
sys.path.insert(0, HERE)


def sh(cmd, cwd=None, env=None, timeout=3600):
    p = subprocess.run(cmd, shell=True, cwd=cwd, env=env, capture_output=True, text=True, timeout=timeout)
    return p.returncode, p.stdout + p.stderr


def main():
    pid, wt = sys.argv[1], sys.argv[2]
    out = os.path.join(wt, 'out')
    env = dict(os.environ, PYTHONPATH=os.path.join(wt, 'src'), MPLBACKEND='Agg')
    tmp = tempfile.mkdtemp(prefix='verif_seedrun_')
    cenv = dict(os.environ, VERIF_REPO=wt, VERIF_OUT=tmp)
    others = sys.argv[3:]
    res = []
    only = os.environ.get('SEED_ONLY')
    for k in (1, 2, 3, 4, 5):
        if only and str(k) not in only.split(','):
            continue
        patch = os.path.join(out, 'patch%d.diff' % k)
        demo = os.path.join(out, 'demo%d.py' % k)
        if not os.path.exists(patch) or os.path.getsize(patch) == 0:
            continue
        sh('git checkout -- src', cwd=wt)
        rc0, o0 = sh('/venv/bin/python %s' % demo, cwd=out, env=env)
        rc, o = sh('git apply %s' % patch, cwd=wt)
        if rc != 0:
            res.append({'k': k, 'error': 'patch does not apply: ' + o[-300:]})
            continue
        ptxt = open(patch).read()
        touches_c = 'mydpss.c' in ptxt
        extra = list(others)
        if os.environ.get('SEED_AUTO_EXTRAS'):
            # also run the quick tier of every check that reaches the touched files (the mapping of tools_equiv.py)
            from tools_equiv import FILE_CHECKS
            touched = sorted({l.split('/')[-1].strip() for l in ptxt.splitlines() if l.startswith('+++ ')})
            extra += [c for c in sorted({c for f in touched for c in FILE_CHECKS.get(f, '').split()}) if c != pid and c not in extra]
        if touches_c:
            sh('gcc -O2 -shared -fPIC -o src/spectrum/mydpss.cpython-312-x86_64-linux-gnu.so src/cpp/mydpss.c -lm', cwd=wt)
        rct, ot = sh('/venv/bin/python -m pytest -q -p no:cacheprovider 2>&1 | tail -3', cwd=wt, env=env)
        tests_ok = '165 passed' in ot and 'failed' not in ot
        rc1, o1 = sh('/venv/bin/python %s' % demo, cwd=out, env=env)
        checks = {}
        for cid in [pid] + extra:
            t0 = time.time()
            rcq, oq = sh('./check %s --tier quick' % cid, cwd=HERE, env=cenv)
            checks[cid + ':quick'] = {'exit': rcq, 'violations': oq.count('VIOLATION property='), 'wall_s': round(time.time() - t0, 1),
                                      'keys': [l.strip()[:200] for l in oq.splitlines() if l.startswith('  [')][:6]}
            if rcq == 0 and (cid == pid or os.environ.get('SEED_THOROUGH_ALL')):
                t0 = time.time()
                rcth, oth = sh('./check %s --tier thorough' % cid, cwd=HERE, env=cenv)
                checks[cid + ':thorough'] = {'exit': rcth, 'violations': oth.count('VIOLATION property='), 'wall_s': round(time.time() - t0, 1),
                                             'keys': [l.strip()[:200] for l in oth.splitlines() if l.startswith('  [')][:6]}
        sh('git checkout -- src', cwd=wt)
        if touches_c:
            sh('gcc -O2 -shared -fPIC -o src/spectrum/mydpss.cpython-312-x86_64-linux-gnu.so src/cpp/mydpss.c -lm', cwd=wt)
        r = {'k': k, 'demo_clean_exit': rc0, 'tests_pass_with_change': tests_ok, 'tests_tail': ot.strip()[-120:], 'demo_changed_exit': rc1, 'checks': checks}
        r['valid'] = (rc0 == 0 and tests_ok and rc1 != 0)
        r['caught'] = any(v['exit'] == 1 for v in checks.values())
        res.append(r)
        print(json.dumps(r)[:1500])
    shutil.rmtree(tmp, ignore_errors=True)
    json.dump(res, open(os.path.join(out, 'validation%s.json' % ('_' + only.replace(',', '') if only else '')), 'w'), indent=1)


if __name__ == '__main__':
    main()
