#!/venv/bin/python
"""Record validated seeded changes of one sub-agent under /verif/seeded/<ID>-<n>/ (patch.diff, demo.py, meta.json).

usage: tools_store.py <property id> <worktree> <wave> <first index> <descriptions.json>
descriptions.json: {"1": {"change": "...", "needs": "..."}, ...} keyed by the agent's patch number K.  Only changes that
tools_seed.py validated (tests pass with the change, demo passes without and fails with it) are stored; 'caught_by' lists the
checks that reported it (exit 1)."""
import json, os, shutil, sys
HERE = os.path.dirname(os.path.abspath(__file__))


def main():
    pid, wt, wave, first, descf = sys.argv[1], sys.argv[2], int(sys.argv[3]), int(sys.argv[4]), sys.argv[5]
    out = os.path.join(wt, 'out')
    props = {json.loads(l)['id']: json.loads(l) for l in open(os.path.join(HERE, 'properties.jsonl'))}
    desc = json.load(open(descf))
    val = []
    for f in sorted(os.listdir(out)):
        if f.startswith('validation') and f.endswith('.json'):
            val += json.load(open(os.path.join(out, f)))
    latest = {}
    for r in val:
        latest[r['k']] = r            # later validation files (re-runs after strengthening) override
    shutil.copy(os.path.join(out, 'notes.md'), os.path.join(HERE, 'seeded', '%s-notes-wave%d.md' % (pid, wave)))
    n = first
    for k in sorted(latest):
        r = latest[k]
        if not r.get('valid'):
            print('%s patch %d: NOT VALID (%s) - not stored' % (pid, k, {x: r.get(x) for x in ('demo_clean_exit', 'tests_pass_with_change', 'demo_changed_exit', 'error')}))
            continue
        d = os.path.join(HERE, 'seeded', '%s-%d' % (pid, n))
        os.makedirs(d, exist_ok=True)
        shutil.copy(os.path.join(out, 'patch%d.diff' % k), os.path.join(d, 'patch.diff'))
        shutil.copy(os.path.join(out, 'demo%d.py' % k), os.path.join(d, 'demo.py'))
        caught = sorted(c for c, v in r['checks'].items() if v['exit'] == 1)
        # prefer the cheapest reporting tier of each check
        caught = [c for c in caught if not (c.endswith(':thorough') and c.replace(':thorough', ':quick') in caught)]
        meta = {'property': pid, 'title': props[pid]['title'], 'wave': wave, 'change': desc[str(k)]['change'], 'needs_to_manifest': desc[str(k)]['needs'],
                'origin': 'independent sub-agent given only the property text, the list of ideas used in earlier waves and a scratch worktree (see %s-notes-wave%d.md)' % (pid, wave),
                'confirmed': {'tests_pass_with_change': r['tests_pass_with_change'], 'demo_exit_clean_tree': r['demo_clean_exit'], 'demo_exit_with_change': r['demo_changed_exit']},
                'what_was_run': 'tools_seed.py', 'checks': {c: {'exit': v['exit'], 'violations': v['violations'], 'first_keys': v.get('keys', [])[:3]} for c, v in r['checks'].items()},
                'caught_by': caught}
        if desc[str(k)].get('not_reported_because'):
            meta['not_reported_because'] = desc[str(k)]['not_reported_because']
        if desc[str(k)].get('strengthened'):
            meta['strengthened'] = desc[str(k)]['strengthened']
        if desc[str(k)].get('first_attempt'):
            meta['first_attempt'] = desc[str(k)]['first_attempt']
        json.dump(meta, open(os.path.join(d, 'meta.json'), 'w'), indent=1)
        print('%s patch %d -> %s caught_by=%s' % (pid, k, os.path.basename(d), caught))
        n += 1


if __name__ == '__main__':
    main()
