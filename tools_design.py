#!/venv/bin/python
"""Regenerates the machine-written regions of DESIGN.md (seeded-change table, measured coverage table) from
seeded/*/meta.json, evidence files and the checks' own bounds()."""
import glob, importlib, json, os, re, sys
HERE = os.path.dirname(os.path.abspath(__file__))
sys.path.insert(0, HERE)


def seeded_table():
    rows = ['| seed | change (file / mechanism) | needs, in order to manifest | reported by |', '|---|---|---|---|']
    for d in sorted(glob.glob(os.path.join(HERE, 'seeded', 'C[0-9][0-9]-[0-9]*'))):
        m = json.load(open(os.path.join(d, 'meta.json')))
        by = ', '.join(c.replace(':', ' ') for c in m['caught_by']) or ('**not reported, by design**: ' + m.get('not_reported_because', '?'))
        note = m.get('strengthened')
        if note:
            by += ' (after: %s)' % note
        rows.append('| %s | %s | %s | %s |' % (os.path.basename(d), m['change'].replace('|', '/'), m['needs_to_manifest'].replace('|', '/'), by))
    return '\n'.join(rows)


def measured_table(evdir):
    rows = ['| ID | engine | tier | states (in-domain points / canonical states) | transitions (impl. calls / events) | compared with the reference | distinct outputs | wall s |',
            '|---|---|---|---|---|---|---|---|']
    from mc import registry
    for pid in sorted(registry.CHECKS):
        for tier, path in (('quick', os.path.join(evdir, 'quick', pid + '.json')), ('thorough', os.path.join(evdir, 'thorough', pid + '.json'))):
            if not os.path.exists(path):
                continue
            e = json.load(open(path))
            c = e['coverage']
            rows.append('| %s | %s | %s | %d | %d | %d | %d | %.0f |' % (pid, registry.CHECKS[pid]['engine'], tier, c['states'], c['transitions'],
                                                                      c['traces_validated_against_impl'], c['distinct_nontrivial'], e['wall_s']))
    return '\n'.join(rows)


def bounds_table():
    rows = ['| ID | thorough bounds (from the check itself) |', '|---|---|']
    for f in sorted(glob.glob(os.path.join(HERE, 'mc', 'checks', 'c[0-9][0-9].py'))):
        mod = importlib.import_module('mc.checks.' + os.path.basename(f)[:-3])
        if hasattr(mod, 'worker_init'):
            try:
                mod.worker_init('thorough')
            except Exception:
                pass
        b = mod.bounds('thorough')
        rows.append('| %s | %s |' % (mod.PROP, '; '.join('%s: %s' % (k, str(v).replace('|', '/')) for k, v in b.items())))
    return '\n'.join(rows)


def mutants_table():
    """measured/mutants_stage<k>.jsonl (+ _recheck: survivors re-run against all 20 checks) -> one row per stage"""
    rows = ['| stage | mutants | killed by the 165 tests | survive the tests | of those: reported by a check | survive both (all read, see below) |', '|---|---|---|---|---|---|']
    for f in sorted(glob.glob(os.path.join(HERE, 'measured', 'mutants_stage[0-9].jsonl'))):
        rs = [json.loads(l) for l in open(f)]
        caught = {(r['file'], r['index']) for r in rs if r.get('caught')}
        rf = f.replace('.jsonl', '_recheck.jsonl')
        note = ''
        if os.path.exists(rf):
            extra = {(r['file'], r['index']) for r in map(json.loads, open(rf)) if r.get('caught')}
            note = ' (%d of them only once all 20 checks were run)' % len(extra - caught)
            caught |= extra
        surv = [r for r in rs if r.get('tests_pass')]
        rows.append('| %s | %d | %d | %d | %d%s | %d |' % (os.path.basename(f)[8:-6], len(rs), len([r for r in rs if r.get('tests_pass') is False]), len(surv),
                                                         len([r for r in surv if (r['file'], r['index']) in caught]), note,
                                                         len([r for r in surv if (r['file'], r['index']) not in caught])))
    return '\n'.join(rows)


def main():
    p = os.path.join(HERE, 'DESIGN.md')
    s = open(p).read()
    evdir = sys.argv[1] if len(sys.argv) > 1 else os.path.join(HERE, 'measured')
    for tag, text in (('SEEDED', seeded_table()), ('MEASURED', measured_table(evdir)), ('BOUNDS', bounds_table()), ('MUTANTS', mutants_table())):
        a, b = '<!-- BEGIN:%s -->' % tag, '<!-- END:%s -->' % tag
        if a in s:
            s = s[:s.index(a) + len(a)] + '\n' + text + '\n' + s[s.index(b):]
    open(p, 'w').write(s)


if __name__ == '__main__':
    main()
