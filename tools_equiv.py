#!/venv/bin/python
"""Validate behaviour-preserving refactorings written by independent sub-agents: every check must stay SILENT on them.

usage: tools_equiv.py <property id> <worktree> [check ids ...]      (default: all 20 quick checks)
For every <worktree>/out/patchK.diff: apply on the clean scratch worktree, run the repository test-suite, run equivK.py
(must exit 0: the agent's own equivalence test against a copy of the original code), run the quick tier of the checks against
the scratch tree (VERIF_REPO, VERIF_OUT redirected), undo.  Nothing is applied to /repo."""
import json, os, shutil, subprocess, sys, tempfile, time
HERE = os.path.dirname(os.path.abspath(__file__))


def sh(cmd, cwd=None, env=None, timeout=3600):
    p = subprocess.run(cmd, shell=True, cwd=cwd, env=env, capture_output=True, text=True, timeout=timeout)
    return p.returncode, p.stdout + p.stderr


def main():
    pid, wt = sys.argv[1], sys.argv[2]
    checks = sys.argv[3:] or ['C%02d' % i for i in range(1, 21)]
    out = os.path.join(wt, 'out')
    env = dict(os.environ, PYTHONPATH=os.path.join(wt, 'src'), MPLBACKEND='Agg')
    res = []
    for k in (1, 2, 3):
        patch = os.path.join(out, 'patch%d.diff' % k)
        eq = os.path.join(out, 'equiv%d.py' % k)
        if not os.path.exists(patch) or os.path.getsize(patch) == 0:
            continue
        sh('git checkout -- src', cwd=wt)
        rc, o = sh('git apply %s' % patch, cwd=wt)
        if rc:
            res.append({'k': k, 'error': 'patch does not apply: ' + o[-300:]})
            continue
        touches_c = 'mydpss.c' in open(patch).read()
        if touches_c:
            sh('gcc -O2 -shared -fPIC -o src/spectrum/mydpss.cpython-312-x86_64-linux-gnu.so src/cpp/mydpss.c -lm', cwd=wt)
        rct, ot = sh('/venv/bin/python -m pytest -q -p no:cacheprovider 2>&1 | tail -3', cwd=wt, env=env)
        rce, oe = sh('/venv/bin/python %s' % eq, cwd=out, env=env) if os.path.exists(eq) else (None, 'no equiv program')
        tmp = tempfile.mkdtemp(prefix='verif_equivrun_')
        cenv = dict(os.environ, VERIF_REPO=wt, VERIF_OUT=tmp)
        alarms = {}
        for cid in checks:
            rcq, oq = sh('./check %s --tier quick' % cid, cwd=HERE, env=cenv)
            if rcq != 0:
                alarms[cid] = {'exit': rcq, 'keys': [l.strip()[:220] for l in oq.splitlines() if l.startswith('  [') or 'HARNESS' in l][:6]}
        shutil.rmtree(tmp, ignore_errors=True)
        sh('git checkout -- src', cwd=wt)
        if touches_c:
            sh('gcc -O2 -shared -fPIC -o src/spectrum/mydpss.cpython-312-x86_64-linux-gnu.so src/cpp/mydpss.c -lm', cwd=wt)
        r = {'k': k, 'tests_pass': '165 passed' in ot and 'failed' not in ot, 'equiv_exit': rce, 'alarms': alarms, 'silent': not alarms}
        res.append(r)
        print(json.dumps(r)[:1200])
    json.dump(res, open(os.path.join(out, 'equiv_validation.json'), 'w'), indent=1)


if __name__ == '__main__':
    main()
