#!/venv/bin/python
"""Validate behaviour-preserving refactorings written by independent sub-agents: every check must stay SILENT on them.

usage: tools_equiv.py <property id> <worktree> [check ids ...]      (default: all 20 quick checks)
For every <worktree>/out/patchK.diff: apply on the clean scratch worktree, run the repository test-suite, run equivK.py
(must exit 0: the agent's own equivalence test against a copy of the original code), run the quick tier of the checks against
the scratch tree (VERIF_REPO, VERIF_OUT redirected), undo.  Nothing is applied to /repo."""
import json, os, shutil, subprocess, sys, tempfile, time
HERE = os.path.dirname(os.path.abspath(__file__))
# checks that exercise a source file (directly or through its callers); EQUIV_ALL=1 runs all 20 instead
FILE_CHECKS = {
    'periodogram.py': 'C01 C02 C05 C06 C07 C08', 'psd.py': 'C01 C02 C05 C06 C07 C08', 'correlog.py': 'C01 C02 C05 C08',
    'correlation.py': 'C01 C03 C04 C05 C09 C12 C15', 'burg.py': 'C03 C04 C05 C07 C08 C13 C16', 'yulewalker.py': 'C02 C03 C04 C05 C07 C12',
    'covar.py': 'C03 C04 C07 C14 C15', 'modcovar.py': 'C02 C03 C04 C14', 'arma.py': 'C02 C03 C04 C05 C07 C08 C15', 'minvar.py': 'C02 C05 C08 C16',
    'eigenfre.py': 'C02 C03 C05 C07 C17', 'mtm.py': 'C02 C05 C08 C18 C19', 'tools.py': 'C02 C06 C07', 'levinson.py': 'C03 C04 C10 C11 C12',
    'toeplitz.py': 'C10', 'cholesky.py': 'C10', 'linear_prediction.py': 'C11', 'lpc.py': 'C12', 'linalg.py': 'C09 C14 C17',
    'window.py': 'C01 C05 C08 C20', 'criteria.py': 'C03 C13 C17', 'mydpss.c': 'C18 C19',
}


def sh(cmd, cwd=None, env=None, timeout=3600):
    p = subprocess.run(cmd, shell=True, cwd=cwd, env=env, capture_output=True, text=True, timeout=timeout)
    return p.returncode, p.stdout + p.stderr


def main():
    pid, wt = sys.argv[1], sys.argv[2]
    fixed = sys.argv[3:] or (['C%02d' % i for i in range(1, 21)] if os.environ.get('EQUIV_ALL') else None)
    out = os.path.join(wt, 'out')
    env = dict(os.environ, PYTHONPATH=os.path.join(wt, 'src'), MPLBACKEND='Agg')
    res = []
    for k in (1, 2, 3):
        patch = os.path.join(out, 'patch%d.diff' % k)
        eq = os.path.join(out, 'equiv%d.py' % k)
        if not os.path.exists(patch) or os.path.getsize(patch) == 0:
            continue
        sh('git checkout -- src', cwd=wt)
        rc, o = sh('git apply %s' % patch, cwd=wt)
        if rc:
            res.append({'k': k, 'error': 'patch does not apply: ' + o[-300:]})
            continue
        ptxt = open(patch).read()
        touches_c = 'mydpss.c' in ptxt
        touched = sorted({l.split('/')[-1].strip() for l in ptxt.splitlines() if l.startswith('+++ ')})
        checks = fixed or sorted({pid} | {c for f in touched for c in FILE_CHECKS.get(f, '').split()})
        if touches_c:
            sh('gcc -O2 -shared -fPIC -o src/spectrum/mydpss.cpython-312-x86_64-linux-gnu.so src/cpp/mydpss.c -lm', cwd=wt)
        rct, ot = sh('/venv/bin/python -m pytest -q -p no:cacheprovider 2>&1 | tail -3', cwd=wt, env=env)
        rce, oe = sh('/venv/bin/python %s' % eq, cwd=out, env=env) if os.path.exists(eq) else (None, 'no equiv program')
        tmp = tempfile.mkdtemp(prefix='verif_equivrun_')
        cenv = dict(os.environ, VERIF_REPO=wt, VERIF_OUT=tmp, VERIF_NPROC=os.environ.get('VERIF_NPROC', '6'))
        alarms = {}
        for cid in checks:
            rcq, oq = sh('./check %s --tier quick' % cid, cwd=HERE, env=cenv)
            if rcq != 0:
                alarms[cid] = {'exit': rcq, 'keys': [l.strip()[:220] for l in oq.splitlines() if l.startswith('  [') or 'HARNESS' in l][:6]}
        shutil.rmtree(tmp, ignore_errors=True)
        sh('git checkout -- src', cwd=wt)
        if touches_c:
            sh('gcc -O2 -shared -fPIC -o src/spectrum/mydpss.cpython-312-x86_64-linux-gnu.so src/cpp/mydpss.c -lm', cwd=wt)
        r = {'k': k, 'files': touched, 'checks': checks, 'tests_pass': '165 passed' in ot and 'failed' not in ot, 'equiv_exit': rce, 'alarms': alarms, 'silent': not alarms}
        res.append(r)
        print(json.dumps(r)[:1200])
    json.dump(res, open(os.path.join(out, 'equiv_validation.json'), 'w'), indent=1)


if __name__ == '__main__':
    main()
